"""Batched code->spec trace validation (DESIGN 2.2)."""
import json, os, re
from .core import MachineryError

_V = re.compile(r'<<"VERDICT", (\d+), (\d+), (\d+)>>')


def validate(ctx, module, cfg, traces, *, name=None, chunk=400, timeout=3600, deque=False, workers=1):
    """Validate a list of traces (dicts with an 'events' list) against a trace spec.

    Returns a list of (accepted, reached_line, n_lines) per trace, in order.
    cfg must name SPECIFICATION/CONSTRAINT Marker/POSTCONDITION Post.
    """
    res = []
    for off in range(0, len(traces), chunk):
        part = traces[off:off + chunk]
        path = os.path.join(ctx.work, "traces-%s-%d.json" % (name or os.path.basename(module), len(ctx.tlc_runs)))
        with open(path, "w") as f:
            json.dump([{k: v for k, v in t.items() if k not in ('info', 'canary')} for t in part], f)
        r = ctx.tlc(module, cfg, name=name, workers=workers, env={"TRACE_FILE": path}, timeout=timeout, deque=deque)
        if r.violated:
            raise MachineryError("trace spec reported an invariant violation (verdicts must be total):\n" + r.trace_text())
        got = {}
        for m in _V.finditer(r.out):
            got[int(m.group(1))] = (int(m.group(2)), int(m.group(3)))
        if len(got) != len(part):
            raise MachineryError("trace validation of %s: %d verdicts for %d traces\n%s" % (module, len(got), len(part), r.out[-2000:]))
        for i in range(1, len(part) + 1):
            reached, n = got[i]
            res.append((reached >= n, reached, n))
    return res


def validate2(ctx, module, cfg_strict, cfg_lenient, traces, **kw):
    """Strict validation against the full model; rejected traces are re-validated with the lenient configuration, which
    keeps only the clauses that restate the property. Returns per trace (strict_ok, lenient_ok, reached_strict, reached_lenient, n)."""
    strict = validate(ctx, module, cfg_strict, traces, **kw)
    bad = [i for i, r in enumerate(strict) if not r[0]]
    len_res = {}
    if bad:
        kw2 = dict(kw)
        kw2["name"] = (kw.get("name") or "trace") + "_lenient"
        res = validate(ctx, module, cfg_lenient, [traces[i] for i in bad], **kw2)
        len_res = dict(zip(bad, res))
    out = []
    for i, (ok, reached, n) in enumerate(strict):
        if ok:
            out.append((True, True, reached, reached, n))
        else:
            lo, lr, _ = len_res[i]
            out.append((False, lo, reached, lr, n))
    return out


def describe_reject(trace, reached):
    ev = trace["events"]
    i = reached - 1  # 0-based index of the first event that could not be taken
    if 0 <= i < len(ev):
        return "rejected at event %d of %d: %s" % (reached, len(ev), json.dumps(ev[i])[:300])
    return "rejected at position %d of %d" % (reached, len(ev))
