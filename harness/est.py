"""Shared drivers for the estimation properties (C03, C08, C10, C13): instance generation, traced runs,
conversion of hook-H2 event streams into SolverTrace.tla traces."""
import itertools, json, math, random
import numpy as np
from scipy import sparse
from scipy.sparse.linalg import aslinearoperator
from .pgm import Domain, Factor, CliqueVector, GraphicalModel
from mbi import FactoredInference
from mbi import _verif_trace as _vt

KEEP = ("est.", "md.", "rda.", "ig.", "bp.done")


class FilterSink(list):
    def __init__(self, prefixes=KEEP):
        super().__init__()
        self.prefixes = prefixes

    def append(self, item):
        if item[0].startswith(self.prefixes):
            super().append(item)


class traced:
    def __init__(self, prefixes=KEEP):
        self.sink = FilterSink(prefixes)

    def __enter__(self):
        if not _vt.ON:
            from .core import MachineryError
            raise MachineryError("hooks disabled: PRIVATE_PGM_VERIF=1 must be set before mbi is imported")
        self.prev = _vt.sink
        _vt.sink = self.sink
        return self.sink

    def __exit__(self, *a):
        _vt.sink = self.prev
        return False


def qmat(kind, n):
    I = np.eye(n)
    return {"identity": I, "none": I, "twice": 2 * I, "total": np.ones((1, n)), "stack": np.vstack([I, I]),
            "id+total": np.vstack([I, np.ones((1, n))]), "prefix": np.tril(np.ones((n, n))), "first": I[:1], "w50": 50.0 * I}[kind]


def gen_instance(rng, nattr=3, max_meas=4, zeros_prob=0.4, allow_empty=True, kinds=None, noisy=True, sizes=None):
    attrs = list("abcde"[:nattr])
    order = attrs[:]
    rng.shuffle(order)
    sz = dict(zip(attrs, sizes or (rng.choice([(2, 3, 2), (2, 2, 1), (3, 2, 2), (2, 2, 2), (1, 3, 2)]) if nattr == 3 else [rng.choice([2, 2, 3]) for _ in attrs])))
    ncell = math.prod(sz[a] for a in order)
    x = np.array([rng.randint(0, 6) for _ in range(ncell)], dtype=float)
    if x.sum() == 0:
        x[0] = 3.0
    nm = rng.randint(0 if allow_empty else 1, max_meas)
    meas = []
    kinds = kinds or ["identity", "none", "twice", "total", "stack", "id+total", "prefix", "first"]
    for _ in range(nm):
        proj = tuple(rng.sample(attrs, rng.choice([1, 2, 2, 2, 3] if nattr == 3 else [1, 2, 2, 2])))
        kind = rng.choice(kinds)
        noise = rng.choice([0.5, 1.0, 2.0, 10.0])
        meas.append({"proj": list(proj), "kind": kind, "noise": noise})
    inst = {"order": order, "sz": sz, "x": x.tolist(), "meas": meas, "zeros": {}}
    for m in meas:
        Q = qmat(m["kind"], math.prod(sz[a] for a in m["proj"]))
        mg = true_marginal(inst, m["proj"]).reshape(-1)
        y = Q @ mg
        if noisy:
            y = y + np.array([rng.gauss(0, m["noise"]) for _ in range(len(y))])
        m["y"] = [float(v) for v in y]
    if rng.random() < zeros_prob:
        pair = tuple(rng.sample(attrs, 2)) if nattr >= 2 else None
        if pair and sz[pair[0]] * sz[pair[1]] >= 2:
            cells = [(i, j) for i in range(sz[pair[0]]) for j in range(sz[pair[1]])]
            k = rng.randint(1, max(1, len(cells) // 2))
            inst["zeros"] = {"%s,%s" % pair: rng.sample(cells, k)}
    return inst


def true_marginal(inst, attrs):
    order = inst["order"]
    shape = [inst["sz"][a] for a in order]
    X = np.array(inst["x"], dtype=float).reshape(shape)
    ax = tuple(i for i, a in enumerate(order) if a not in attrs)
    M = X.sum(axis=ax)
    rest = [a for a in order if a in attrs]
    return np.transpose(M, [rest.index(a) for a in attrs]) if rest else M


def measurements(inst, style="dense"):
    out = []
    for i, m in enumerate(inst["meas"]):
        n = math.prod(inst["sz"][a] for a in m["proj"])
        Q = qmat(m["kind"], n)
        if m["kind"] == "none" and style in ("none", "mixed"):
            Qs = None
        elif style == "mixed":
            # a workload that mixes the spellings: dense, sparse and LinearOperator queries side by side
            Qs = [Q, sparse.csr_matrix(Q), aslinearoperator(sparse.csr_matrix(Q))][i % 3]
        elif style == "sparse":
            Qs = sparse.csr_matrix(Q)
        elif style == "operator":
            Qs = aslinearoperator(sparse.csr_matrix(Q))
        else:
            Qs = Q
        out.append((Qs, np.array(m["y"], dtype=float), float(m["noise"]), tuple(m["proj"])))
    return out


def zeros_arg(inst):
    return {tuple(k.split(",")): [tuple(c) for c in v] for k, v in inst["zeros"].items()}


def domain_of(inst):
    return Domain(inst["order"], [inst["sz"][a] for a in inst["order"]])


def make_engine(inst, iters, warm_start=False, elim_order=None, metric="L2"):
    return FactoredInference(domain_of(inst), structural_zeros=zeros_arg(inst), iters=iters, warm_start=warm_start,
                             elim_order=elim_order, metric=metric)


def quiet(fn, *a, **k):
    """Run fn with stdout silenced (dual_averaging prints the Lipschitz constant)."""
    import io, contextlib
    with contextlib.redirect_stdout(io.StringIO()):
        return fn(*a, **k)


def run_estimate(eng, meas, total, solver, options=None, callback=None):
    with np.errstate(all="ignore"), traced() as ev:
        model = quiet(eng.estimate, meas, total=total, engine=solver, callback=callback, options=dict(options or {}))
    return model, list(ev)


# ---------------------------------------------------------------- H2 events -> SolverTrace.tla trace
def solver_trace(events, solver, iters, nols):
    ids = {}

    def num(x):
        if x is None:
            return 0
        if x not in ids:
            ids[x] = len(ids) + 1
        return ids[x]

    out = []
    alpha0 = None
    tries = [f for k, f in events if k == "md.try"]
    lasttheta = lastmu = lastbp = 0
    for idx, (k, f) in enumerate(events):
        if k == "est.setup":
            out.append({"e": "setup"})
            alpha0 = 1.0 / f["total"] ** 2
        elif k == "bp.done":
            if not f["logZ"]:
                lastbp = num(f["out_id"])
                out.append({"e": "bp", "pot": num(f["pot_id"]), "out": lastbp})
        elif k == "md.try":
            if nols:
                ex = 0
            else:
                r = alpha0 / f["alpha"] if f["alpha"] else float("inf")
                ex = int(round(math.log2(r))) if (r > 0 and math.isfinite(r)) else 99999
                if ex != 99999 and (abs(ex) > 1000 or f["alpha"] * (2.0 ** ex) != alpha0):
                    ex = 99999
            suff = bool(f["curr"] - f["new"] >= f["rhs"])
            # branch actually taken: accepted iff the next trial (if any) belongs to the next iteration, or this is the
            # last event of the loop and it was not followed by another trial of the same iteration
            nxt = next((g for kk, g in events[idx + 1:] if kk == "md.try"), None)
            ended = nxt is None or nxt["t"] != f["t"]
            # at the 25th trial exhaustion and break are indistinguishable by events (only by the next step size)
            branch = ended if f["i"] < 24 else (bool(f["nols"]) or suff)
            lasttheta, lastmu = num(f["theta_id"]), num(f["mu_id"])
            out.append({"e": "try", "t": f["t"], "i": f["i"], "ex": ex, "suff": suff, "branch": bool(branch),
                        "theta": lasttheta, "mu": lastmu})
        elif k in ("rda.iter", "ig.iter"):
            out.append({"e": "iter", "t": f.get("t", f.get("k"))})
        elif k == "est.return":
            if f["path"] in ("zero_loss", "lip_zero"):
                out.append({"e": "exit"})
                out.append({"e": "return", "path": f["path"], "pot": num(f["pot_id"]), "marg": 0})
            else:
                out.append({"e": "return", "path": f["path"], "pot": num(f["pot_id"]), "marg": num(f["marg_id"])})
    return {"solver": solver, "iters": iters, "nols": bool(nols), "lasttheta": lasttheta, "lastmu": lastmu,
            "lastbpout": lastbp, "events": out}


SOLVER_TRACE_CFG = ("CONSTANTS\n  MaxIters = 1\n  MaxTrials = 25\n  Strict = TRUE\nSPECIFICATION TraceSpec\nCONSTRAINT Marker\nPOSTCONDITION Post\n"
                    "CHECK_DEADLOCK FALSE\n")
SOLVER_TRACE_CFG_LENIENT = SOLVER_TRACE_CFG.replace("Strict = TRUE", "Strict = FALSE")


# ---------------------------------------------------------------- numeric coherence of a returned model
def all_subsets(attrs):
    out = []
    for r in range(len(attrs) + 1):
        out += [tuple(c) for c in itertools.combinations(attrs, r)]
    return out


def coherence_problems(model, tol=1e-7):
    """C08's observable: one valid distribution behind every answer."""
    bad = []
    total = float(model.total)
    attrs = list(model.domain.attrs)
    with np.errstate(all="ignore"):
        if hasattr(model, "marginals"):
            bp = model.belief_propagation(model.potentials)
            for cl in model.cliques:
                a, b = np.asarray(model.marginals[cl].values), np.asarray(bp[cl].values)
                if not np.all(np.isfinite(a)) or not np.allclose(a, b, rtol=1e-8, atol=tol * total):
                    bad.append("stored marginals on %s differ from the marginals of the stored parameters (max diff %.3g)" % (
                        cl, float(np.nanmax(np.abs(a - b))) if a.shape == b.shape else float("nan")))
                    break
        joint = np.asarray(model.datavector(flatten=False))
        if tuple(joint.shape) != tuple(model.domain.shape):
            bad.append("datavector(flatten=False) has shape %s, the domain's is %s" % (tuple(joint.shape), tuple(model.domain.shape)))
            joint = joint.reshape(tuple(model.domain.shape)) if joint.size == int(np.prod(model.domain.shape)) else np.full(tuple(model.domain.shape), np.nan)
        answers = {}
        for s in all_subsets(attrs):
            try:
                f = model.project(s)
            except Exception as ex:
                bad.append("project(%s) raised %r" % (s, ex))
                continue
            v = np.asarray(f.values, dtype=float)
            answers[s] = v
            if not np.all(np.isfinite(v)):
                bad.append("project(%s) not finite" % (s,))
            elif v.min() < -1e-12 * total:
                bad.append("project(%s) has negative mass %.3g" % (s, v.min()))
            elif abs(v.sum() - total) > 1e-8 * total:
                bad.append("project(%s) sums to %r, total %r" % (s, float(v.sum()), total))
            else:
                ax = tuple(i for i, a in enumerate(attrs) if a not in s)
                want = joint.sum(axis=ax)
                if v.shape != want.shape:
                    bad.append("project(%s) has shape %s, expected %s" % (s, v.shape, want.shape))
                elif not np.allclose(v, want, rtol=1e-6, atol=tol * total):
                    bad.append("project(%s) disagrees with the model's own joint (max diff %.3g of total %g)" % (
                        s, float(np.max(np.abs(v - want))), total))
        if not np.all(np.isfinite(joint)) or abs(joint.sum() - total) > 1e-8 * total or joint.min() < -1e-12 * total:
            bad.append("datavector not a valid distribution (sum %r)" % float(np.nansum(joint)))
        else:
            # the Kronecker-product query path (identity factors reproduce the full table; it needs the log-partition value)
            try:
                mag = max([float(np.max(np.abs(np.where(np.isfinite(model.potentials[cl].values), model.potentials[cl].values, 0.0)))) for cl in model.cliques] + [0.0])
                if mag < 300.0:          # krondot exponentiates raw potentials: documented not to survive huge magnitudes
                    kd = np.asarray(model.krondot([np.eye(n_) for n_ in model.domain.shape]), dtype=float).reshape(joint.shape)
                    if not np.allclose(kd, joint, rtol=1e-6, atol=tol * total):
                        bad.append("krondot with identity factors disagrees with datavector (sums %r vs %r)" % (float(kd.sum()), float(joint.sum())))
            except Exception as ex:
                bad.append("krondot raised %r" % ex)
        # any two answers agree on the attributes they share
        keys = list(answers)
        for s in keys:
            for u in keys:
                if s < u and set(s) & set(u) and np.all(np.isfinite(answers[s])) and np.all(np.isfinite(answers[u])):
                    sh = tuple(a for a in attrs if a in s and a in u)
                    ms = answers[s].sum(axis=tuple(i for i, a in enumerate(s) if a not in sh))
                    mu_ = answers[u].sum(axis=tuple(i for i, a in enumerate(u) if a not in sh))
                    if not np.allclose(ms, mu_, rtol=1e-6, atol=tol * total):
                        bad.append("answers for %s and %s disagree on %s (max diff %.3g)" % (s, u, sh, float(np.max(np.abs(ms - mu_)))))
                        break
            if len(bad) > 4:
                break
    return bad


def l2_loss_of_model(model, meas):
    """Squared-error objective recomputed from the model's public answers only."""
    loss = 0.0
    for Q, y, noise, proj in meas:
        x = np.asarray(model.project(tuple(proj)).values, dtype=float).reshape(-1)
        r = (x if Q is None else Q @ x) - y
        loss += 0.5 * float(r @ r) / noise ** 2
    return loss
