"""C10 - structural zeros carry no mass in any answer.

spec/est/ZeroFlow.tla: abstract extended-real flow of a declared-zero cell through every solver and warm-start
history (ZeroStaysZero, NoNaN) + the transfer table of the Factor operations, replayed per transition.
End to end: estimators are run on TLC-style enumerated (zero set, measured cliques, solver, history) cases.
"""
import itertools, json, math, random
import numpy as np
from ..core import MachineryError
from .. import est as E
from ..pgm import Domain, Factor, CliqueVector

RDA_RULE = "theta0"      # the rule the implementation is specified to follow
FLOW_CFG = ("CONSTANTS\n  MaxCalls = 3\n  RDARule = \"%s\"\nSPECIFICATION Spec\nINVARIANT ZeroStaysZero\nINVARIANT NoNaN\nCHECK_DEADLOCK FALSE\n")

REPS = {"PSm": [-math.log(1e-100)], "NInf": [-np.inf], "Fin": [1.0, -1.0, 1e-300, -2.5], "Smooth": [math.log(1e-100)], "Huge": [np.finfo(float).max, -np.finfo(float).max],
        "PInf": [np.inf], "NaN": [np.nan]}


def classify(v):
    if np.isnan(v): return "NaN"
    if v == np.inf: return "PInf"
    if v == -np.inf: return "NInf"
    if abs(v) >= 1e307: return "Huge"
    if -1e6 < v < -150: return "Smooth"      # a log-parameter this negative means a mass below 1e-65
    if 150 < v < 1e6: return "PSm"
    return "Fin"


def allowed(spec, got):
    # Smooth is "an ordinary number near -230": a Fin result is acceptable where the spec says Smooth and vice versa only
    # when the value really is near -230 (classify decides); Huge +- Fin may land on either side of the Huge threshold
    return got == spec or (spec == "Huge" and got in ("PInf", "NInf")) or (spec == "Fin" and got in ("Smooth", "PSm"))


def check_transfer(ctx, table):
    dom = Domain(["a"], [1])
    n = 0
    for op, rows in table.items():
        for row in rows:
            ins, want = row[:-1], row[-1]
            for vals in itertools.product(*[REPS[c] for c in ins]):
                n += 1
                with np.errstate(all="ignore"):
                    fs_ = [Factor(dom, np.array([v])) for v in vals]
                    if list(ins).count("Huge") == 2:
                        continue         # two maximal floats cancel or overflow: outside the no-overflow assumption
                    if op == "add":
                        r = (fs_[0] + fs_[1]).values[0]
                    elif op == "sub":
                        r = (fs_[0] - fs_[1]).values[0]
                    elif op == "scale":
                        r = (2.0 * fs_[0]).values[0]
                    elif op == "cvsub":
                        r = (CliqueVector({("a",): fs_[0]}) - CliqueVector({("a",): fs_[1]}))[("a",)].values[0]
                        if set(ins) == {"Huge"} or (ins[0] == "Huge" and ins[1] in ("NInf", "PInf")):
                            continue
                got = classify(r)
                ctx.case(("transfer", op, ins, vals), nontrivial=True)
                if not allowed(want, got):
                    # the abstract transfer functions describe HOW the present code keeps zeros at zero; the property itself is
                    # decided end to end below, so a different arithmetic that still passes those checks is a deviation
                    ctx.deviation("Factor operation %s on %s (%s) gives %r (%s), ZeroFlow.tla's transfer function says %s" % (
                        op, ins, vals, r, got, want), {"op": op, "operands": list(map(str, vals))})
    return n


def zero_cases(rng, count):
    """(instance, description): zero sets on a measured clique, on a sub-clique of a measured clique, on an unmeasured
    attribute group; scattered cells and whole rows/columns (a dead separator value)."""
    out = []
    while len(out) < count:
        if len(out) % 7 == 3:
            # five attributes, a tree of pairs whose alphabetical clique order is NOT a running-intersection order, zeros on the
            # alphabetically late clique (what a parameter fit that walks the cliques in a fixed order must get right)
            inst = E.gen_instance(rng, nattr=5, max_meas=0, zeros_prob=0.0, allow_empty=True, sizes=[2, 2, 2, 2, 2])
            cls = rng.choice([[("a", "e"), ("b", "c"), ("c", "e")], [("a", "d"), ("b", "c"), ("c", "d"), ("d", "e")], [("b", "e"), ("a", "c"), ("c", "e")],
                              [("a", "e"), ("b", "d"), ("d", "e"), ("c", "e")]])
            for cl in cls:
                cl = tuple(rng.sample(cl, 2))
                y = E.true_marginal(inst, list(cl)).reshape(-1) + np.array([rng.gauss(0, 1.0) for _ in range(4)])
                inst["meas"].append({"proj": list(cl), "kind": "identity", "noise": 1.0, "y": [float(v) for v in y]})
            zc = cls[-1] if rng.random() < 0.7 else rng.choice(cls)
            inst["zeros"] = {"%s,%s" % zc: rng.sample([(0, 0), (0, 1), (1, 0), (1, 1)], rng.choice([1, 2]))}
            out.append((inst, {"where": "measured", "shape": "tree5"}))
            continue
        nattr = rng.choice([3, 3, 4])
        inst = E.gen_instance(rng, nattr=nattr, max_meas=4, zeros_prob=0.0, allow_empty=False,
                              kinds=["identity", "none", "total", "id+total", "prefix"])
        attrs = inst["order"]
        sz = inst["sz"]
        where = rng.choice(["measured", "sub", "unmeasured", "measured"])
        pairs = [tuple(m["proj"]) for m in inst["meas"] if len(m["proj"]) == 2]
        if where == "measured" and pairs:
            zc = rng.choice(pairs)
        elif where == "sub":
            tri = [tuple(m["proj"]) for m in inst["meas"] if len(m["proj"]) >= 3]
            zc = tuple(rng.sample(tri[0], 2)) if tri else tuple(rng.sample(attrs, 2))
        else:
            zc = tuple(rng.sample(attrs, 2))
        cells = [(i, j) for i in range(sz[zc[0]]) for j in range(sz[zc[1]])]
        if len(cells) < 2:
            continue
        shape = rng.choice(["scattered", "row", "column", "origin"])
        if shape == "row":
            i = rng.randrange(sz[zc[0]])
            z = [(i, j) for j in range(sz[zc[1]])]
        elif shape == "column":
            j = rng.randrange(sz[zc[1]])
            z = [(i, j) for i in range(sz[zc[0]])]
        elif shape == "origin":
            z = [(0, 0)]                      # the only declared-impossible cell is the all-zero index
        else:
            z = rng.sample(cells, rng.randint(1, max(1, len(cells) - 1)))
        if len(z) >= len(cells):
            continue
        # keep the true data consistent with the declaration is NOT required: noisy measurements may contradict zeros
        inst["zeros"] = {"%s,%s" % zc: z}
        out.append((inst, {"where": where, "shape": shape}))
    return out


def zero_mass_problems(model, inst, synth=True):
    bad = []
    total = float(model.total)
    attrs = list(model.domain.attrs)
    with np.errstate(all="ignore"):
        for key, cells in inst["zeros"].items():
            zc = tuple(key.split(","))
            joint = model.datavector(flatten=False)
            if not np.all(np.isfinite(joint)):
                bad.append("datavector contains NaN/inf")
            elif abs(joint.sum() - total) > 1e-8 * total:
                bad.append("datavector sums to %r, total %r" % (float(joint.sum()), total))
            queries = [zc, tuple(reversed(zc))] + [tuple(a for a in attrs if a in zc or a == o) for o in attrs if o not in zc]
            # the same queries asked in bulk (conditionals by division: 0/0 on a dead separator value), plus every model clique
            bulk_keys = list(dict.fromkeys(queries + [tuple(c_) for c_ in model.cliques] + [(a,) for a in attrs]))
            try:
                bulk = model.calculate_many_marginals(bulk_keys)
            except Exception as ex:
                bad.append("calculate_many_marginals raised %r" % ex)
                bulk = {}
            for q in bulk_keys:
                if q in bulk:
                    v = np.asarray(bulk[q].values, dtype=float)
                    if not np.all(np.isfinite(v)):
                        bad.append("calculate_many_marginals[%s] contains NaN" % (q,))
                    elif abs(v.sum() - total) > 1e-8 * total:
                        bad.append("calculate_many_marginals[%s] sums to %r, total %r" % (q, float(v.sum()), total))
                    elif zc[0] in q and zc[1] in q:
                        i0, i1 = q.index(zc[0]), q.index(zc[1])
                        for c in cells:
                            idx = [slice(None)] * len(q)
                            idx[i0], idx[i1] = c[0], c[1]
                            if float(np.sum(v[tuple(idx)])) > 1e-12 * total:
                                bad.append("calculate_many_marginals[%s] gives mass to the impossible cell %s=%s" % (q, zc, tuple(c)))
                                break
            for q in queries:
                f = model.project(q)
                v = np.asarray(f.values, dtype=float)
                if not np.all(np.isfinite(v)):
                    bad.append("project(%s) contains NaN" % (q,))
                    continue
                if abs(v.sum() - total) > 1e-8 * total:
                    bad.append("project(%s) sums to %r, total %r" % (q, float(v.sum()), total))
                i0, i1 = q.index(zc[0]), q.index(zc[1])
                for c in cells:
                    idx = [slice(None)] * len(q)
                    idx[i0], idx[i1] = c[0], c[1]
                    mass = float(np.sum(v[tuple(idx)]))
                    if mass > 1e-12 * total:
                        bad.append("project(%s) gives mass %.3g to the impossible cell %s=%s" % (q, mass, zc, tuple(c)))
                        break
            j0, j1 = attrs.index(zc[0]), attrs.index(zc[1])
            if np.all(np.isfinite(joint)):
                for c in cells:
                    idx = [slice(None)] * len(attrs)
                    idx[j0], idx[j1] = c[0], c[1]
                    if float(np.sum(joint[tuple(idx)])) > 1e-12 * total:
                        bad.append("datavector gives mass to the impossible cell %s=%s" % (zc, tuple(c)))
                        break
            if synth and total >= 1 and not bad:
                try:
                    np.random.seed(0)
                    sy = model.synthetic_data(rows=200)
                    df = sy.df
                    for c in cells:
                        k = int(((df[zc[0]] == c[0]) & (df[zc[1]] == c[1])).sum())
                        if k:
                            bad.append("synthetic_data puts %d records in the impossible cell %s=%s" % (k, zc, tuple(c)))
                            break
                except Exception as ex:
                    bad.append("synthetic_data raised %r" % ex)
    return bad


def run(ctx, canary=False):
    rng = random.Random(ctx.seed)
    thorough = ctx.tier == "thorough"
    ctx.rule = ("TLC explores ZeroFlow.tla (3 solvers x 0-2 iterations x early exits x warm/cold histories of length <= 3 mixing solvers) "
                "for ZeroStaysZero/NoNaN and prints the transfer table of Factor +, -, scalar*, CliqueVector - over "
                "{-inf, finite, log(1e-100), +-1.8e308, +inf, nan}, each row replayed on real Factors; estimators are then run end to end on "
                "zero sets (measured clique / sub-clique / unmeasured pair; scattered cells, whole rows and columns) x solvers x histories "
                "(cold, warm, warm with shrinking/growing measurement lists, solver changes) checking every answer incl. synthetic data. "
                "non-trivial = distinct (zero set, measurements, history)")
    r = ctx.tlc("est/ZeroFlow.tla", FLOW_CFG % RDA_RULE, name="ZeroFlow", workers=2, coverage=True, timeout=3600)
    if r.violated:
        ctx.violation("design-level: %s violated in ZeroFlow.tla (rule %s)" % (r.violated, RDA_RULE), {"tlc": r.trace_text()}, {"kind": "design"})
    if not r.emits:
        raise MachineryError("ZeroFlow.tla did not print its transfer table")
    ntr = check_transfer(ctx, {k: [list(x) for x in v] for k, v in r.emits[0].items()})
    ctx.extra["transfer_rows_replayed"] = ntr
    ctx.sample({"transfer rows": {k: [list(x) for x in v][:3] for k, v in r.emits[0].items()}})

    solvers = ["MD", "RDA", "IG"]
    paths = {}
    for inst, desc in zero_cases(rng, 260 if thorough else 42):
        hist_kind = rng.choice(["cold", "cold", "warm2", "warm3", "warm-shrink", "cold3"])
        nsteps = {"cold": 1, "warm2": 2, "warm3": 3, "warm-shrink": 2, "cold3": 3}[hist_kind]
        warm = hist_kind.startswith("warm")
        seq = [rng.choice(solvers) for _ in range(nsteps)]
        iters = rng.choice([1, 3, 200])
        info = {"instance": inst, "zero_placement": desc, "history": hist_kind, "solvers": seq, "iters": iters}
        ctx.case(json.dumps(info, sort_keys=True), nontrivial=True)
        paths[hist_kind] = paths.get(hist_kind, 0) + 1
        try:
            eng = E.make_engine(inst, iters, warm_start=warm)
            total = rng.choice([None, float(sum(inst["x"])), 50.0])
            for step, solver in enumerate(seq):
                cur = dict(inst)
                if hist_kind == "warm-shrink" and step == 0:
                    # first call measures the whole domain jointly, the second only the original (smaller) cliques:
                    # the earlier maximal clique disappears from the model
                    full = list(inst["order"])
                    cur = dict(inst, meas=inst["meas"] + [{"proj": full, "kind": "identity", "noise": 5.0,
                                                           "y": E.true_marginal(inst, full).reshape(-1).tolist()}])
                elif step > 0 and hist_kind in ("warm2", "warm3", "cold3"):
                    cur = dict(inst, meas=inst["meas"][: max(1, len(inst["meas"]) - step + 1)] if rng.random() < 0.5 else inst["meas"])
                meas = E.measurements(cur, rng.choice(["dense", "sparse", "mixed"]))
                model, ev = E.run_estimate(eng, meas, total, solver)
                bad = zero_mass_problems(model, inst, synth=(step == len(seq) - 1))
                if bad:
                    mag = max([float(np.max(np.abs(np.where(np.isfinite(model.potentials[cl].values), model.potentials[cl].values, 0.0))))
                               for cl in model.cliques] + [0.0])
                    only_norm = all("sums to" in b for b in bad)
                    ctx.violation("structural zero violated after call %d (%s): %s" % (step + 1, solver, "; ".join(bad[:3])),
                                  dict(info, failing_call=step + 1, max_abs_potential=mag),
                                  {"kind": "zero_mass", "solver": solver, "nan": any("NaN" in b for b in bad),
                                   "cause": "huge_potentials" if (mag > 1e6 and only_norm) else "other"})
                    break
        except Exception as ex:
            ctx.violation("estimation with structural zeros raised %r" % ex, info, {"kind": "crash"})
    ctx.extra["histories"] = paths
    ctx.assumptions += ["finite values stay finite (no overflow by magnitude)", "mass threshold 1e-12 x total (the 1e-100 smoothing of "
                        "Factor.log is a named deviation)", "synthetic data checked with 200 rows, round mode"]


def replay(ctx, path):
    print(json.dumps(json.load(open(path)), indent=1)[:3000])
    return 0
