"""C07 - zCDP <-> (epsilon, delta) conversions are sound, tight and mutually inverse.

spec/dp/Bisect.tla (every monotone predicate on a grid: sound end returned, tight), spec/dp/BisectTrace.tla (hook H6
iterations with an independently evaluated predicate; relations between returned values as fixed-point logarithms).
"""
import json, math, multiprocessing, random
import numpy as np
from ..core import MachineryError
from .. import trace as T
from .. import rng as R

LEVEL = "model_checking"
MODEL_CFG = ("CONSTANTS\n  N = %d\n  Kinds = {\"low\", \"high\"}\nSPECIFICATION Spec\nINVARIANT SoundEnd\nINVARIANT Tight\nINVARIANT Halving\nCHECK_DEADLOCK FALSE\n")
TRACE_CFG = "CONSTANTS\n  Strict = TRUE\nSPECIFICATION TraceSpec\nCONSTRAINT Marker\nPOSTCONDITION Post\nCHECK_DEADLOCK FALSE\n"


def log_delta_alpha(alpha, rho, eps):
    return (alpha - 1) * (alpha * rho - eps) + alpha * np.log1p(-1.0 / alpha) - np.log(alpha - 1.0)


def delta_indep(rho, eps):
    """min over alpha >= 1.01 of the published bound, by dense grid + golden-section refinement (independent of the code)."""
    if rho == 0:
        return 0.0
    amax = max((eps + 1) / (2 * rho) + 2, 1.02)
    grid = 1.0 + np.exp(np.linspace(math.log(0.01), math.log(amax - 1.0), 6000))
    v = log_delta_alpha(grid, rho, eps)
    i = int(np.argmin(v))
    a, b = grid[max(i - 1, 0)], grid[min(i + 1, len(grid) - 1)]
    gr = (math.sqrt(5) - 1) / 2
    c, d = b - gr * (b - a), a + gr * (b - a)
    for _ in range(80):
        if log_delta_alpha(c, rho, eps) < log_delta_alpha(d, rho, eps):
            b = d
        else:
            a = c
        c, d = b - gr * (b - a), a + gr * (b - a)
    best = min(float(v[i]), float(log_delta_alpha((a + b) / 2, rho, eps)))
    return min(math.exp(best) if best < 700 else math.inf, 1.0)


def gauss_delta(rho, eps):
    """Exact delta of the Gaussian mechanism with rho-zCDP (mu = sqrt(2 rho))."""
    mu = math.sqrt(2 * rho)
    Phi = lambda x: 0.5 * math.erfc(-x / math.sqrt(2))
    # e^eps * Phi(-eps/mu - mu/2) computed in log space
    t = -eps / mu - mu / 2
    logPhi = math.log(Phi(t)) if Phi(t) > 0 else -math.inf
    second = math.exp(eps + logPhi) if logPhi > -math.inf else 0.0
    return max(Phi(-eps / mu + mu / 2) - second, 0.0)


def mlog(x):
    return int(round(math.log(max(x, 1e-300)) * 1e6))


def job(arg):
    kind, a, b = arg
    from mbi import _verif_trace as vt
    cdp = R.load_mechanism("cdp2adp")
    vt.sink = []
    vt.detail = (kind == "delta")
    try:
        if kind == "rho":
            eps, delta = a, b
            ret = cdp.cdp_rho(eps, delta)
            evs = [f for k, f in vt.sink if k == "bisect" and f["fn"] == "cdp_rho"]
            lo0, hi0 = 0.0, eps + 1
            pred = lambda mid: delta_indep(mid, eps)
            target = delta
        elif kind == "eps":
            rho, delta = a, b
            ret = cdp.cdp_eps(rho, delta)
            evs = [f for k, f in vt.sink if k == "bisect" and f["fn"] == "cdp_eps"]
            lo0, hi0 = 0.0, rho + 2 * math.sqrt(rho * math.log(1 / delta))
            pred = lambda mid: delta_indep(rho, mid)
            target = delta
        else:
            rho, eps = a, b
            ret = cdp.cdp_delta(rho, eps)
            evs = [f for k, f in vt.sink if k == "bisect" and f["fn"] == "cdp_delta"]
            lo0, hi0 = 1.01, (eps + 1) / (2 * rho) + 2
    except Exception as ex:
        vt.sink = None
        return {"err": repr(ex), "arg": arg}
    finally:
        vt.detail = False
    vt.sink = None
    events = []
    lo, hi = lo0, hi0
    for f in evs:
        mid, nlo, nhi = f["mid"], f["lo"], f["hi"]
        if (nlo, nhi) == (lo, hi) and len(events) > 5:
            break
        branch = "lo" if nlo == mid and nlo != lo or (nlo == mid and nhi == hi and nhi != mid) else "hi"
        if nlo == mid and nhi == mid:
            break
        first = not events
        # the initial bracket is the implementation's choice and is not observable: the first logged interval is taken as given
        mid_ok = True if first else (mid == (lo + hi) / 2)
        other_kept = True if first else ((nhi == hi) if branch == "lo" else (nlo == lo))
        if first:
            branch = "lo" if nlo == mid else "hi"
        if kind == "delta":
            der = (2 * mid - 1) * a - b + math.log1p(-1.0 / mid)
            p, near = bool(der < 0), abs(der) < 1e-9
        else:
            di = pred(mid)
            p = bool(di <= target)
            near = abs(math.log(max(di, 1e-300)) - math.log(target)) < 1e-6
        events.append({"k": "iter", "branch": branch, "mid_ok": bool(mid_ok), "other_kept": bool(other_kept), "pred": p, "near": bool(near)})
        lo, hi = nlo, nhi
    flo, fhi = (evs[-1]["lo"], evs[-1]["hi"]) if evs else (lo, hi)
    if kind == "rho":
        events.append({"k": "ret", "end": "lo" if ret == flo else ("hi" if ret == fhi else "none")})
    elif kind == "eps":
        events.append({"k": "ret", "end": "hi" if ret == fhi else ("lo" if ret == flo else "none")})
    return {"kind": kind, "a": a, "b": b, "ret": ret, "events": events, "n_iter": len(evs)}


def lone_call(arg):
    kind, a, b = arg
    cdp = R.load_mechanism("cdp2adp")
    try:
        return {"rho": cdp.cdp_rho, "eps": cdp.cdp_eps, "delta": cdp.cdp_delta}[kind](a, b)
    except Exception as ex:
        return repr(ex)


def run(ctx, canary=False):
    rng = random.Random(ctx.seed)
    thorough = ctx.tier == "thorough"
    ctx.rule = ("TLC checks the abstract bisection for every threshold on a 64/256-point grid (sound end returned, tight, halving); "
                "cdp_rho, cdp_eps and cdp_delta are called on log grids and random points of rho in [1e-6,1e2], eps in [1e-3,1e2], delta in "
                "[1e-15,0.5]; every recorded bisection iteration (hook H6) must move the end that an INDEPENDENT evaluation of the published "
                "bound prescribes, and the returned values must satisfy soundness, the Gaussian lower bound, tightness, monotonicity and the "
                "inverse relations (compared by TLC as fixed-point logarithms). non-trivial = distinct call")
    for n in ((64, 256) if thorough else (64,)):
        r = ctx.tlc("dp/Bisect.tla", MODEL_CFG % n, name="Bisect_%d" % n, workers=4, coverage=(n == 64), timeout=3600)
        if r.violated:
            ctx.violation("design-level: %s violated in Bisect.tla" % r.violated, {"tlc": r.trace_text()}, {"kind": "design"})
    # unbounded grids: Apalache discharges the inductive invariant of BisectInd.tla for EVERY N >= 2 and threshold
    obligations = [("Init => IndInv", ["--cinit=CInit", "--init=Init", "--inv=IndInv", "--length=0"]),
                   ("IndInv /\\ Next => IndInv'", ["--cinit=CInit", "--init=IndInit", "--inv=IndInv", "--length=1"]),
                   ("IndInv => SoundEnd", ["--cinit=CInit", "--init=IndInit", "--inv=SoundEnd", "--length=0"])]
    done = 0
    for label, args in obligations:
        v = ctx.apalache("dp/BisectInd.tla", args, name="BisectInd")
        if v != "ok":
            ctx.violation("design-level: Apalache refutes '%s' for the bisection (BisectInd.tla)" % label, {"obligation": label}, {"kind": "design"})
        else:
            done += 1
    neg = ctx.apalache("dp/BisectInd.tla", obligations[1][1], name="BisectInd_negative_control",
                       sed=("THEN (IF P(mid) THEN lo' = mid /\\ hi' = hi ELSE hi' = mid /\\ lo' = lo)", "THEN (IF P(mid) THEN hi' = mid /\\ lo' = lo ELSE lo' = mid /\\ hi' = hi)"))
    if neg != "violated":
        raise MachineryError("negative control: a bisection that moves the wrong end was not refuted by Apalache")
    ctx.extra["apalache_inductive"] = {"module": "spec/dp/BisectInd.tla", "obligations": len(obligations), "discharged": done,
                                       "unbounded": "grid size N >= 2 and threshold arbitrary", "negative_control": "wrong-end bisection refuted"}
    R.install_shims()
    nr, ne, nd = (400, 400, 3000) if thorough else (36, 36, 260)
    def lg(lo, hi):
        return math.exp(rng.uniform(math.log(lo), math.log(hi)))
    eps_grid = [1e-3, 0.01, 0.1, 0.5, 1.0, 2.0, 3.0, 5.0, 8.0, 10.0, 30.0, 100.0]
    delta_grid = [1e-15, 1e-12, 1e-9, 1e-6, 1e-4, 1e-3, 0.03, 0.3, 0.5]
    rho_grid = [1e-6, 1e-4, 1e-3, 0.01, 0.1, 0.5, 1.0, 3.0, 10.0, 100.0]
    rho_jobs = [("rho", rng.choice(eps_grid), rng.choice(delta_grid)) for _ in range(nr // 2)] + [("rho", lg(1e-3, 1e2), lg(1e-15, 0.5)) for _ in range(nr - nr // 2)]
    eps_jobs = [("eps", rng.choice(rho_grid), rng.choice(delta_grid)) for _ in range(ne // 2)] + [("eps", lg(1e-6, 1e2), lg(1e-15, 0.5)) for _ in range(ne - ne // 2)]
    # the corners of the stated box (and points just inside them), always included
    rho_jobs += [("rho", e_, d_) for e_ in (1e-3, 2e-3, 100.0) for d_ in (1e-15, 1e-12, 1e-9, 2e-7, 0.5)]
    eps_jobs += [("eps", r_, d_) for r_ in (100.0, 50.0, 30.0, 1e-6) for d_ in (0.5, 0.3, 0.1, 1e-15)]
    del_jobs = [("delta", rng.choice(rho_grid), rng.choice(eps_grid)) for _ in range(nd // 2)] + [("delta", lg(1e-6, 1e2), lg(1e-3, 1e2)) for _ in range(nd - nd // 2)]
    with multiprocessing.get_context("fork").Pool(16) as pool:
        results = pool.map(job, rho_jobs + eps_jobs + del_jobs, chunksize=4)
        # inverse calls need the first results
        inv = []
        for res in results:
            if res.get("kind") == "rho" and res["ret"] > 0:
                inv.append(("eps", res["ret"], res["b"]))
            elif res.get("kind") == "eps" and res["ret"] > 0:
                inv.append(("rho", res["ret"], res["b"]))
        inv_results = pool.map(job, inv, chunksize=4)
    cdp = R.load_mechanism("cdp2adp")
    # The conversions are functions of their arguments: a call made after other calls in the same process (arguments that differ
    # only far below any display precision) returns bit for bit what a lone call in a fresh process returns.
    seqs = [[("rho", e_, d_) for d_ in (1e-13, 1e-15, 3e-13, 1e-14)] for e_ in (1e-3, 1.0)]
    seqs += [[("eps", r_, d_) for d_ in (1e-13, 1e-15, 2e-13)] for r_ in (1e-4, 3.0)]
    seqs += [[("delta", 1.0 + k_ * 1e-13, 2.0) for k_ in range(3)], [("delta", 0.5, 1.0 + k_ * 1e-13) for k_ in range(3)]]
    flat = [c_ for sq in seqs for c_ in sq]
    with multiprocessing.get_context("fork").Pool(len(flat), maxtasksperchild=1) as pool:
        lone = pool.map(lone_call, flat, chunksize=1)
    fn = {"rho": cdp.cdp_rho, "eps": cdp.cdp_eps, "delta": cdp.cdp_delta}
    for (kind_, a_, b_), alone in zip(flat, lone):
        ctx.case(json.dumps(["history", kind_, a_, b_]), nontrivial=True)
        try:
            here = fn[kind_](a_, b_)
        except Exception as ex:
            here = repr(ex)
        if here != alone:
            ctx.violation("cdp_%s(%r, %r) returns %r after other calls in the same process, %r as the first call of a fresh process" % (kind_, a_, b_, here, alone),
                          {"call": [kind_, a_, b_], "calls_before": [list(c_) for c_ in flat[:flat.index((kind_, a_, b_))]]}, {"kind": "history"})
    traces = []
    inv_by = {(r_["kind"], r_["a"], r_["b"]): r_ for r_ in inv_results if "kind" in r_}
    for res in results:
        if "err" in res:
            ctx.case(json.dumps(res["arg"]))
            ctx.violation("conversion raised %s" % res["err"], {"call": res["arg"]}, {"kind": "crash"})
            continue
        kind, a, b, ret = res["kind"], res["a"], res["b"], res["ret"]
        info = {"call": "cdp_%s(%r, %r)" % (kind, a, b), "returned": ret}
        ctx.case(json.dumps(info["call"]), nontrivial=True)
        ev = list(res["events"])
        tkind = "low" if kind in ("rho", "delta") else "high"
        rel = []
        if kind == "rho":
            eps, delta = a, b
            if ret > 0:
                implied = delta_indep(ret, eps)
                rel.append(("sound: implied delta <= target", "leq", mlog(implied), mlog(delta), 2))
                # the bisection invariant, exact: the returned end is the one at which the implementation's own bound met the target
                rel.append(("sound (exact, implementation's own bound): cdp_delta(returned rho, eps) <= delta", "leq",
                            0 if cdp.cdp_delta(ret, eps) <= delta else 1, 0, 0))
                rel.append(("Gaussian exact delta <= implied delta", "leq", mlog(gauss_delta(ret, eps)), mlog(implied), 2))
                up = delta_indep(ret * (1 + 1e-6) + 1e-300, eps)
                rel.append(("tight: a slightly larger budget violates the target", "leq", mlog(delta), mlog(up), 5))
                iv = inv_by.get(("eps", ret, delta))
                if iv and ret < eps + 1 - 1e-9:
                    rel.append(("cdp_eps(cdp_rho(eps,delta),delta) = eps", "near", mlog(iv["ret"]), mlog(eps), 20))
        elif kind == "eps":
            rho, delta = a, b
            if ret == 0 and rho > 0 and delta < 1:
                # epsilon 0 claimed sufficient: the implied delta at epsilon = 0 (and the exact Gaussian one) must meet the target
                rel.append(("sound: implied delta at the returned epsilon 0 <= target", "leq", mlog(delta_indep(rho, 1e-12)), mlog(delta), 2))
            if ret > 0:
                implied = delta_indep(rho, ret)
                rel.append(("sound: implied delta <= target", "leq", mlog(implied), mlog(delta), 2))
                rel.append(("sound (exact, implementation's own bound): cdp_delta(rho, returned eps) <= delta", "leq",
                            0 if cdp.cdp_delta(rho, ret) <= delta else 1, 0, 0))
                if ret > 1e-12:
                    dn = delta_indep(rho, ret * (1 - 1e-6))
                    rel.append(("tight: a slightly smaller epsilon violates the target", "leq", mlog(delta), mlog(dn), 5))
                iv = inv_by.get(("rho", ret, delta))
                # the inverse exists only where the constraint is active: at epsilon -> 0 the implied delta must exceed the target
                if iv and delta_indep(rho, 1e-12) > delta * (1 + 1e-6):
                    rel.append(("cdp_rho(cdp_eps(rho,delta),delta) = rho", "near", mlog(iv["ret"]), mlog(rho), 20))
        else:
            rho, eps = a, b
            di = delta_indep(rho, eps)
            if di > 1e-290:
                rel.append(("cdp_delta equals the optimum of the published bound", "near", mlog(ret), mlog(di), 5))
            rel.append(("Gaussian exact delta <= cdp_delta", "leq", mlog(gauss_delta(rho, eps)), mlog(ret), 2))
            d2 = cdp.cdp_delta(rho * 1.25, eps)
            rel.append(("monotone in rho", "leq", mlog(ret), mlog(d2), 2))
            d3 = cdp.cdp_delta(rho, eps * 1.25)
            rel.append(("monotone in eps", "leq", mlog(d3), mlog(ret), 2))
        for (label, op, x, y, tol) in rel:
            ev.append({"k": "rel", "op": op, "a": x, "b": y, "tol": tol, "label": label})
        traces.append({"kind": tkind, "events": ev, "info": info})
    # monotonicity of the two inverse conversions on the grid
    byr = sorted([r_ for r_ in results if r_.get("kind") == "rho"], key=lambda r_: (r_["b"], r_["a"]))
    for x, y in zip(byr, byr[1:]):
        if x["b"] == y["b"] and x["a"] < y["a"]:
            traces.append({"kind": "low", "info": {"call": "cdp_rho monotone in eps at delta=%r: %r -> %r" % (x["b"], x["a"], y["a"])},
                           "events": [{"k": "rel", "op": "leq", "a": mlog(x["ret"]), "b": mlog(y["ret"]), "tol": 2, "label": "cdp_rho increasing in eps"}]})
    bye = sorted([r_ for r_ in results if r_.get("kind") == "eps"], key=lambda r_: (r_["b"], r_["a"]))
    for x, y in zip(bye, bye[1:]):
        if x["b"] == y["b"] and x["a"] < y["a"]:
            traces.append({"kind": "high", "info": {"call": "cdp_eps monotone in rho at delta=%r: %r -> %r" % (x["b"], x["a"], y["a"])},
                           "events": [{"k": "rel", "op": "leq", "a": mlog(x["ret"]), "b": mlog(y["ret"]), "tol": 2, "label": "cdp_eps increasing in rho"}]})
    if canary:
        import copy
        can = []
        for t in traces[:60]:
            its = [i for i, e in enumerate(t["events"]) if e["k"] == "iter" and not e["near"]]
            if its:
                c = copy.deepcopy(t)
                c["events"][its[len(its) // 2]]["pred"] = not c["events"][its[len(its) // 2]]["pred"]
                c["canary"] = "independent predicate flipped at one iteration"
                can.append(c)
        traces = can
    tl = [{"kind": t["kind"], "events": [{k: v for k, v in e.items() if k != "label"} for e in t["events"]], "info": t["info"]} for t in traces]
    res = T.validate2(ctx, "dp/BisectTrace.tla", TRACE_CFG, TRACE_CFG.replace("Strict = TRUE", "Strict = FALSE"), tl, name="BisectTrace", chunk=400, timeout=7200)
    for t, (ok, okl, reached, reachedl, ln) in zip(traces, res):
        if t.get("canary"):
            if ok:
                raise MachineryError("canary accepted: " + t["canary"])
        elif ok:
            ctx.traces_validated += 1
        elif okl:
            ctx.deviation("%s: returned values satisfy every relation, but the search is not a behaviour of Bisect.tla: %s" % (
                t["info"]["call"], T.describe_reject(t, reached)), t["info"])
        else:
            reached = reachedl
            e = t["events"][reached - 1] if reached <= len(t["events"]) else {}
            what = e.get("label") or ("bisection iteration %d: %s" % (reached, {k: v for k, v in e.items()}))
            ctx.violation("%s: %s fails (a=%s b=%s micro-log units)" % (t["info"]["call"], what, e.get("a"), e.get("b")),
                          {"info": t["info"], "event": e}, {"kind": "relation" if e.get("k") == "rel" else "bisection", "label": e.get("label", "")})
    if traces:
        ctx.sample({"call": traces[0]["info"], "events": traces[0]["events"][:3] + traces[0]["events"][-3:]})
    ctx.assumptions += ["exp/log1p/erfc are evaluated by the harness's independent evaluator; TLC decides branch consistency and the "
                        "comparisons of logged fixed-point logarithms (level for the analytic clauses: other)",
                        "the published bound is minimised over alpha >= 1.01, the numerical-stability floor the implementation documents"]


def replay(ctx, path):
    print(json.dumps(json.load(open(path)), indent=1)[:3000])
    return 0
