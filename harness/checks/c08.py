"""C08 - the returned model is one coherent, valid distribution.

spec/est/Solvers.tla (all exit paths x iteration counts; Coherent), spec/est/SolverTrace.tla (hook H2 streams),
bp/BeliefProp.tla's BP o MLE lemma is exercised numerically here (stored marginals = BP(stored parameters)).
"""
import json, random
import numpy as np
from ..core import MachineryError
from .. import trace as T
from .. import est as E

MODEL_CFG = ("CONSTANTS\n  MaxIters = 3\n  MaxTrials = 25\nSPECIFICATION Spec\nINVARIANT Coherent\nINVARIANT LineSearchOK\n"
             "INVARIANT IterCount\nCHECK_DEADLOCK FALSE\n")


def scenarios(rng, count):
    out = []
    for k in range(count):
        inst = (E.gen_instance(rng, max_meas=4, zeros_prob=0.35) if rng.random() < 0.6 else
                E.gen_instance(rng, nattr=rng.choice([4, 5]), max_meas=5, zeros_prob=0.2, allow_empty=False))   # branching trees
        solver = ["MD", "RDA", "IG"][k % 3]
        iters = rng.choice([1, 1, 2, 3, 50])
        total = rng.choice([None, 10.0, float(sum(inst["x"])), 1.0])
        opts = {}
        if solver == "MD" and rng.random() < 0.25:
            opts = {"stepsize": rng.choice([1e-3, 0.05])}
        out.append((inst, solver, iters, total, opts))
    # paths TLC reaches that random inputs rarely take
    base = E.gen_instance(rng, max_meas=3, zeros_prob=0.0, allow_empty=False, noisy=False)
    out.append((dict(base, meas=[]), "MD", 2, 10.0, {}))            # empty list: zero-loss exit
    out.append((dict(base, meas=[]), "RDA", 2, 10.0, {}))           # empty list: L = 0 exit
    out.append((dict(base, meas=[]), "IG", 2, 10.0, {}))
    z = E.gen_instance(rng, max_meas=2, zeros_prob=1.0, allow_empty=False)
    for s in ("MD", "RDA", "IG"):
        out.append((z, s, 1, None, {}))
    # chordless cycles of length 5 and 6 (fill-in of fill-in is needed for a valid tree)
    for n in (5, 6):
        cyc = E.gen_instance(rng, nattr=5, max_meas=0, zeros_prob=0.0, sizes=[2] * 5) if n == 5 else None
        if cyc is None:
            continue
        a = sorted(cyc["order"])
        # domain in name order: the default greedy elimination then removes a, b, c, ... in turn, and the third elimination
        # involves a fill-in edge created by the first
        x = E.true_marginal(cyc, a).reshape(-1)
        cyc["order"], cyc["x"] = a, [float(v) for v in x]
        for i in range(5):
            pr = [a[i], a[(i + 1) % 5]]
            y = E.true_marginal(cyc, pr).reshape(-1) + np.array([rng.gauss(0, 1.0) for _ in range(4)])
            cyc["meas"].append({"proj": pr, "kind": "identity", "noise": 1.0, "y": [float(v) for v in y]})
        for s in ("MD", "RDA", "IG"):
            out.append((cyc, s, rng.choice([1, 25]), float(sum(cyc["x"])), {}))
    # histories on one warm-started engine: a normal call, then a call that takes an early exit with another total
    for s in ("MD", "RDA", "IG"):
        # measurements only inside the clique that carries the structural zeros: both calls build the same maximal cliques
        g = E.gen_instance(rng, max_meas=0, zeros_prob=1.0, sizes=(2, 3, 2))
        while not g["zeros"]:
            g = E.gen_instance(rng, max_meas=0, zeros_prob=1.0, sizes=(2, 3, 2))
        zc = list(next(iter(g["zeros"])).split(","))
        for pr in (zc, zc[:1]):
            y = E.true_marginal(g, pr).reshape(-1) + np.array([rng.gauss(0, 1.0) for _ in range(int(np.prod([g["sz"][a] for a in pr])))])
            g["meas"].append({"proj": pr, "kind": "identity", "noise": 1.0, "y": [float(v) for v in y]})
        out.append((dict(g, meas=[]), s, 3, 17.0, {}, {"warm": True, "prior": [(g, s, 40.0)]}))
        h = E.gen_instance(rng, max_meas=3, zeros_prob=1.0, allow_empty=False)
        out.append((dict(h, meas=[]), s, 3, 17.0, {}, {"warm": True, "prior": [(h, s, 40.0)]}))
        out.append((h, s, 3, 25.0, {}, {"warm": True, "prior": [(dict(h, meas=[]), s, 9.0), (h, "MD", 60.0)]}))
    return out


def run(ctx, canary=False):
    rng = random.Random(ctx.seed)
    thorough = ctx.tier == "thorough"
    ctx.rule = ("TLC explores Solvers.tla (3 solvers x iteration counts 1-3 x line search on/off x every comparison outcome, forced accept "
                "on the 25th trial, both early exits) and checks Coherent; seeded estimation runs (0-4 measurements incl. the empty list, "
                "totals given/estimated, structural zeros, iteration counts 1,2,3,50, constant step sizes) are executed with hook H2 and "
                "(a) their event streams validated by SolverTrace.tla, (b) the returned model checked: stored marginals = BP(stored "
                "parameters), every answer over all attribute subsets finite/non-negative/summing to total/consistent with the model's own "
                "joint and with every other answer. non-trivial = distinct (instance, solver, iters, options) with >= 1 measurement")
    r = ctx.tlc("est/Solvers.tla", MODEL_CFG, name="Solvers", workers=4, coverage=True, timeout=3600)
    if r.violated:
        ctx.violation("design-level: %s violated in Solvers.tla" % r.violated, {"tlc": r.trace_text()}, {"kind": "design"})
    traces = []
    paths = {}
    for sc in scenarios(rng, 1500 if thorough else 240):
        inst, solver, iters, total, opts = sc[:5]
        hist = sc[5] if len(sc) > 5 else None
        info = {"instance": inst, "solver": solver, "iters": iters, "total": total, "options": opts, "history": hist}
        ctx.case(json.dumps(info, sort_keys=True), nontrivial=len(inst["meas"]) >= 1)
        try:
            eng = E.make_engine(inst, iters, warm_start=bool(hist and hist.get("warm")))
            for (pi, ps, pt) in (hist or {}).get("prior", []):
                E.run_estimate(eng, E.measurements(pi, "dense"), pt, ps, {})
            meas = E.measurements(inst, rng.choice(["dense", "sparse", "mixed"]))
            cb = None
            if rng.random() < 0.35:
                # a progress monitor that asks the engine's current model for one- and two-way answers while the solver runs
                attrs_ = list(inst["order"])
                def cb(mu, eng=eng, attrs_=attrs_):
                    try:
                        for i_ in range(len(attrs_)):
                            eng.model.project((attrs_[i_],))
                            for j_ in range(i_ + 1, len(attrs_)):
                                eng.model.project((attrs_[i_], attrs_[j_]))
                    except Exception:
                        pass
                info["monitoring_callback"] = True
            model, ev = E.run_estimate(eng, meas, total, solver, opts, callback=cb)
        except Exception as ex:
            ctx.violation("estimate raised %r" % ex, info, {"kind": "crash", "solver": solver, "empty": not inst["meas"]})
            continue
        rets = [f for k, f in ev if k == "est.return"]
        path = rets[-1]["path"] if rets else "none"
        paths[solver + ":" + path] = paths.get(solver + ":" + path, 0) + 1
        bad = E.coherence_problems(model)
        if not bad and float(model.total) >= 1:
            # read-only uses (record generation with both methods and two row counts, bulk queries) leave the model the coherent
            # distribution it was
            try:
                import contextlib, io
                with contextlib.redirect_stdout(io.StringIO()), np.errstate(all="ignore"):
                    np.random.seed(5)
                    model.synthetic_data(rows=3, method="round")
                    model.synthetic_data(method="round")
                    model.synthetic_data(rows=5, method="sample")
                bad = ["after generating synthetic records from it: " + b for b in E.coherence_problems(model)]
            except Exception as ex:
                bad = []      # record generation itself is C11's subject
        if bad:
            mag = max([float(np.max(np.abs(np.where(np.isfinite(model.potentials[cl].values), model.potentials[cl].values, 0.0))))
                       for cl in model.cliques] + [0.0])
            info["max_abs_potential"] = mag
            ctx.violation("returned model is not one coherent distribution: " + "; ".join(bad[:3]), info,
                          {"kind": "coherence", "solver": solver, "cause": "huge_potentials" if mag > 1e6 else "other"})
        tr = E.solver_trace(ev, solver, iters, "stepsize" in opts)
        tr["info"] = {"solver": solver, "iters": iters, "total": total, "options": opts, "n_meas": len(inst["meas"])}
        traces.append(tr)
    if canary:
        traces = corrupt(traces)
    res = T.validate2(ctx, "est/SolverTrace.tla", E.SOLVER_TRACE_CFG, E.SOLVER_TRACE_CFG_LENIENT, traces, name="SolverTrace", chunk=200, timeout=7200)
    for t, (ok, okl, reached, reachedl, ln) in zip(traces, res):
        if t.get("canary"):
            if ok:
                raise MachineryError("canary accepted: " + t["canary"])
        elif ok:
            ctx.traces_validated += 1
        elif okl:
            ctx.deviation("the stored pair is legal, but the run is not a behaviour of Solvers.tla: " + T.describe_reject(t, reached), t["info"])
        else:
            reached = reachedl
            ctx.violation("solver event stream rejected by SolverTrace.tla: " + T.describe_reject(t, reached),
                          {"trace_info": t["info"], "events_near": t["events"][max(0, reached - 3):reached + 1]},
                          {"kind": "trace", "solver": t["solver"]})
    ctx.extra["exit_paths"] = paths
    for need in ("MD:normal", "MD:zero_loss", "RDA:avg", "RDA:lip_zero", "IG:avg"):
        if not paths.get(need) and not ctx.violations and not ctx.known_hits:
            raise MachineryError("exit path never taken: " + need)
    if traces:
        ctx.sample({"H2 trace": traces[0]["info"], "events": traces[0]["events"][:8]})
    ctx.assumptions += ["numpy backend only", "object identities are renumbered per trace; id reuse after garbage collection is harmless "
                        "because only contemporaneous objects are compared"]


def corrupt(traces):
    import copy
    out = []
    for t in traces:
        tries = [i for i, e in enumerate(t["events"]) if e["e"] == "try"]
        if t["solver"] == "MD" and tries and not t["nols"] and t["events"][tries[-1]]["i"] < 24:
            c = copy.deepcopy(t)
            c["events"][tries[-1]]["suff"] = not c["events"][tries[-1]]["suff"]
            c["canary"] = "sufficient-decrease flag flipped"
            out.append(c)
            c = copy.deepcopy(t)
            c["events"][-1]["marg"] = c["events"][-1]["marg"] + 1000
            c["canary"] = "returned marginals are not the last trial's"
            out.append(c)
        if t["solver"] != "MD":
            its = [i for i, e in enumerate(t["events"]) if e["e"] == "iter"]
            if its:
                c = copy.deepcopy(t)
                del c["events"][its[-1]]
                c["canary"] = "one iteration missing"
                out.append(c)
    return out[:80]


def replay(ctx, path):
    print(json.dumps(json.load(open(path)), indent=1)[:3000])
    return 0
