"""C01 - exact inference returns the true marginals of the product distribution.

spec/bp/BeliefProp.tla (integer sum-product model; every schedule, tree, zero pattern)
spec/bp/BPTrace.tla    (hook H1 traces -> spec)
"""
import itertools, math, os, random
import numpy as np
from ..core import to_tla, MachineryError, TSet
from .. import trace as T
from ..pgm import (Domain, Factor, CliqueVector, GraphicalModel, fs, LETTERS, tracing, to_order, near_int,
                   brute_joint, marg_of_joint)

PRIMES = [2, 3, 5, 7, 11, 13, 17, 19, 23, 29, 31, 37, 41, 43, 47, 53, 59, 61, 67, 71, 73, 79, 83, 89, 97]
INVS = ["Exact", "SameZ", "AbsorbOK", "DivOK", "MsgMeaning", "BeliefMeaning"]


def catalogue(tier):
    """Clique structures named by the property: cyclic, disconnected, nested, duplicated, permuted spelling."""
    S = []

    def add(name, n, cliques, sizes=None):
        ord_ = list(LETTERS[:n])
        sz = dict(zip(ord_, sizes or [2] * n))
        S.append({"name": name, "ord": ord_, "sz": sz, "cliques": [tuple(c) for c in cliques]})

    add("chain3", 3, ["ab", "bc"])
    add("chain3-perm", 3, ["ba", "cb"], [2, 3, 2])
    add("triangle", 3, ["ab", "bc", "ca"])
    add("nested", 3, ["abc", "ba", "b"], [2, 2, 2])
    add("dup", 3, ["ab", "ba", "bc"], [2, 2, 1])
    add("single", 2, ["ba"], [3, 2])
    add("isolated", 3, ["ab"], [2, 2, 2])
    add("chain4", 4, ["ab", "bc", "cd"])
    add("star", 4, ["ab", "ac", "ad"])
    add("cycle4", 4, ["ab", "bc", "cd", "da"])
    add("disconnected", 4, ["ab", "dc"], [2, 1, 2, 3])
    add("tri+pendant", 4, ["acb", "cd"], [2, 2, 2, 2])
    add("cycle5", 5, ["ab", "bc", "cd", "de", "ea"])
    add("fan", 5, ["eab", "ebc", "ecd"])             # three cliques sharing e: the outer two are NOT adjacent in the junction tree
    if tier == "thorough":
        add("chain5", 5, ["ab", "bc", "cd", "de"])
        add("two-triangles", 4, ["abc", "bcd", "ad"])
        add("star-size3", 4, ["ab", "ac", "ad"], [3, 2, 2, 1])
        add("grid2x3", 6, ["ab", "bc", "de", "ef", "ad", "be", "cf"])
    for s in S:
        ncell = sum(math.prod(s["sz"][a] for a in c) for c in s["cliques"])
        # pairwise distinct primes where they fit; larger structures get a generic pattern of small weights so that the joint
        # stays far below 2^30 (TLC integers)
        p = iter(PRIMES) if (ncell <= len(PRIMES) and len(s["cliques"]) <= 4 and s["name"] != "fan") else itertools.cycle([2, 3, 1, 5, 2, 1, 3] if s["name"] != "fan" else [1, 2, 1, 3, 1, 1, 2])
        s["pots"] = []
        for c in s["cliques"]:
            n = 1
            for a in c:
                n *= s["sz"][a]
            s["pots"].append({"at": list(c), "w": [next(p) for _ in range(n)]})
    return S


def build_model(s, order, dom_order, total=1.0):
    dom = Domain(dom_order, [s["sz"][a] for a in dom_order])
    return GraphicalModel(dom, [tuple(c) for c in s["cliques"]], total, elimination_order=list(order))


def observe_home(model, s):
    """Which maximal clique does CliqueVector.combine absorb input potential k into? (observed, not assumed)"""
    home = []
    for p in s["pots"]:
        cv = CliqueVector.zeros(model.domain, model.cliques)
        f = Factor(model.domain.project(p["at"]), np.ones(len(p["w"])))
        cv.combine(CliqueVector({tuple(p["at"]): f}))
        changed = [cl for cl in model.cliques if np.any(cv[cl].values != 0)]
        home.append(changed)
    return home


def spread_terms(s, c):
    """Cancelling spreads: +c*x_a on one potential and -c*x_a on another that shares attribute a.
    The joint is unchanged, but each potential alone spans far more than the range of exp()."""
    terms = [np.zeros(len(p["w"])) for p in s["pots"]]
    used = set()
    for k1, p1 in enumerate(s["pots"]):
        for k2, p2 in enumerate(s["pots"]):
            if k1 < k2 and (k1, k2) not in used:
                sh = [a for a in p1["at"] if a in p2["at"] and s["sz"][a] > 1]
                if not sh:
                    continue
                a = sh[0]
                used.add((k1, k2))
                for p, t, sign in ((p1, terms[k1], 1.0), (p2, terms[k2], -1.0)):
                    shape = [s["sz"][x] for x in p["at"]]
                    idx = np.indices(shape)[p["at"].index(a)].reshape(-1)
                    t += sign * c * idx
    return terms


def potentials(model, s, zs, shifts, scale=1.0, spread=0.0):
    cv = CliqueVector.zeros(model.domain, model.cliques)
    terms = spread_terms(s, spread) if spread else None
    for k, p in enumerate(s["pots"]):
        w = np.array([0.0 if (k + 1, i + 1) in zs else float(x) for i, x in enumerate(p["w"])])
        with np.errstate(divide="ignore"):
            lw = np.log(w) * scale + shifts[k]
        if terms is not None:
            lw = lw + terms[k]
        cv.combine(CliqueVector({tuple(p["at"]): Factor(model.domain.project(p["at"]), lw)}))
    return cv


def norm(v):
    v = np.asarray(v, dtype=float)
    t = v.sum()
    return v / t if t > 0 else v


def tree_key(model):
    N = fs(fs(c) for c in model.cliques)
    Tt = fs(fs((fs(a), fs(b))) for a, b in model.junction_tree.tree.edges())
    return (N, Tt)


def run(ctx, canary=False):
    rng = random.Random(ctx.seed)
    thorough = ctx.tier == "thorough"
    ctx.rule = ("TLC explores BeliefProp.tla for a catalogue of clique structures (cyclic, disconnected, nested, duplicated, "
                "permuted spellings; sizes 1-3) x every junction tree the implementation builds over all elimination orders "
                "x zero patterns x EVERY dependency-respecting message schedule, checking integer equality with brute-force "
                "marginals; every completed behaviour is replayed on GraphicalModel.belief_propagation with message_order "
                "overwritten, potentials ln(w)+K (K up to +-5000), comparing each message (hook H1) and the final marginals/logZ; "
                "H1 traces of the code's own schedules on random 5-7 attribute models are validated by BPTrace.tla. "
                "non-trivial = distinct (structure, tree, zero pattern, schedule, shift) with >= 2 cliques")
    cat = catalogue(ctx.tier)
    structs = []
    kept = []     # catalogue entries that made it into the TLC constant (a structure whose every build is broken is reported and skipped)
    builds = {}   # (sid, treekey) -> list of (order, dom_order)
    for s in cat:
        sid = len(structs) + 1
        V = s["ord"]
        orders = list(itertools.permutations(V))
        if len(orders) > 24:
            orders = rng.sample(orders, 40)
        trees = {}
        for order in orders:
            for dom_order in (V, list(reversed(V))):
                try:
                    m = build_model(s, order, dom_order)
                    home = observe_home(m, s)
                except Exception as ex:
                    ctx.violation("model construction raised %r" % ex, {"struct": s, "order": order}, {"kind": "crash"})
                    continue
                if any(len(h) != 1 for h in home):
                    ctx.violation("an input potential is absorbed into %s maximal cliques (must be exactly one): %s" % (
                        [len(h) for h in home], home), {"struct": s, "order": order, "dom_order": dom_order}, {"kind": "absorb"})
                    continue
                hk = tuple(fs(h[0]) for h in home)
                k = tree_key(m) + (hk,)
                trees.setdefault(k, []).append((order, dom_order))
        if not trees:
            continue
        cells = [(k + 1, i + 1) for k, p in enumerate(s["pots"]) for i in range(len(p["w"]))]
        if thorough and len(cells) <= 8:
            zsets = [fs(c) for r in range(len(cells) + 1) for c in itertools.combinations(cells, r)]
        else:
            zsets = [fs()] + [fs([c]) for c in cells]
            nz = 60 if thorough else 16
            for _ in range(nz):
                zsets.append(fs(rng.sample(cells, rng.randint(2, max(2, len(cells) // 2)))))
            zsets = list(dict.fromkeys(zsets))
        for tk in trees:
            builds[(sid, tk[0], tk[1])] = builds.get((sid, tk[0], tk[1]), []) + trees[tk]
        kept.append(s)
        structs.append({"V": set(V), "sz": s["sz"], "ord": V, "pots": s["pots"],
                        "trees": [{"N": tk[0], "T": tk[1], "home": list(tk[2])} for tk in trees],
                        "zsets": zsets})
    for st in structs:
        st["trees"] = TSet(st["trees"])
        st["zsets"] = set(st["zsets"])
    # ---- TLC: all schedules / trees / zero patterns
    emits = []
    # one TLC run per structure keeps each state space small and lets them run in parallel
    from concurrent.futures import ThreadPoolExecutor
    def one(i):
        mc = os.path.join(ctx.work, "MC_BP_%d.tla" % i)
        with open(mc, "w") as f:
            f.write("---- MODULE MC_BP_%d ----\nEXTENDS BeliefProp\nMCStructs == <<%s>>\n====\n" % (
                i, ", ".join(to_tla(s) if j == i else "[trees |-> {}, zsets |-> {}]" for j, s in enumerate(structs))))
        cfg = "CONSTANTS\n  Structs <- MCStructs\n  EmitRuns = TRUE\nSPECIFICATION Spec\n%s\nCHECK_DEADLOCK FALSE\n" % (
            "\n".join("INVARIANT " + x for x in INVS))
        return ctx.tlc(mc, cfg, name="BP_%s" % kept[i]["name"], workers=2, extra_modules=("bp",), timeout=14400, coverage=(i == 0))
    with ThreadPoolExecutor(8) as ex:
        results = list(ex.map(one, range(len(structs))))
    for i, r in enumerate(results):
        if r.violated:
            ctx.violation("%s violated in BeliefProp.tla on structure %s with a junction tree built by the implementation "
                          "(message passing on that tree is not exact in ANY schedule)" % (r.violated, kept[i]["name"]),
                          {"tlc": r.trace_text()}, {"kind": "design"})
        emits += r.emits
    ctx.extra["spec_behaviours"] = len(emits)

    # ---- spec -> code replay
    rng.shuffle(emits)
    budget = 20000 if thorough else 1500
    shift_menu = [lambda k: 0.0, lambda k: 700.0 * (-1) ** k, lambda k: -5000.0 if k == 0 else 3000.0, lambda k: 37.5 * (k + 1)]
    cache = {}
    nrep = 0
    for e in emits[:budget]:
        sid = e["sid"]
        s = kept[sid - 1]
        N = fs(fs(n) for n in e["nodes"])
        Tt = fs(fs((fs(a), fs(b))) for a, b in e["tree"])
        cands = builds.get((sid, N, Tt))
        if not cands:
            raise MachineryError("spec emitted a tree the harness did not supply")
        order, dom_order = cands[rng.randrange(len(cands))]
        zs = {tuple(z) for z in e["zs"]}
        for si in ([0, rng.randrange(1, len(shift_menu))] if nrep % 3 == 0 else [rng.randrange(len(shift_menu))]):
            scale = 1.0 if si != 2 else 40.0     # huge magnitudes: weights^40
            spread = 1500.0 if si == 3 else 0.0  # cancelling +-1500*x spreads between neighbouring potentials
            total = rng.choice([1.0, 10.0, 3.5, 1e6])
            replay_one(ctx, s, sid, e, order, dom_order, zs, shift_menu[si], scale, total, spread)
        nrep += 1
    if emits:
        e = emits[0]
        ctx.sample({"spec behaviour": {"structure": kept[e["sid"] - 1]["name"], "zero_cells": e["zs"],
                                       "schedule": [[x["i"], x["j"]] for x in e["hist"]], "Z": e["Z"]}})

    # ---- code -> spec (H1 traces of the code's own schedule)
    traces = own_traces(ctx, rng, 1200 if thorough else 120)
    if canary:
        traces = corrupt(traces)
    tcfg = ("CONSTANTS\n  Structs <- TraceStructs\n  EmitRuns = FALSE\n  Strict = %s\nSPECIFICATION TraceSpec\n"
            "CONSTRAINT Marker\nPOSTCONDITION Post\nCHECK_DEADLOCK FALSE\n")
    res = T.validate2(ctx, "bp/BPTrace.tla", tcfg % "TRUE", tcfg % "FALSE", traces, name="BPTrace", chunk=150, timeout=7200)
    for t, (ok, okl, reached, reachedl, ln) in zip(traces, res):
        if t.get("canary"):
            if ok:
                raise MachineryError("canary accepted: " + t["canary"])
        elif ok:
            ctx.traces_validated += 1
        elif okl:
            ctx.deviation("exact marginals, but the messages are not those of BeliefProp.tla: " + T.describe_reject(t, reached), t.get("info"))
        else:
            ctx.violation("belief-propagation trace rejected by BPTrace.tla: " + T.describe_reject(t, reachedl),
                          {"trace": t}, {"kind": "trace"})
    if traces:
        ctx.sample({"H1 trace": {"cliques": traces[0]["nodes"], "first_events": traces[0]["events"][:2]}})
    ctx.assumptions += ["numpy backend only (torch absent)", "instances bounded to Z < 2^30 (TLC integers)",
                        "float comparisons: 1e-9 relative on normalised tables (DESIGN 1.6)"]


def replay_one(ctx, s, sid, e, order, dom_order, zs, shift, scale, total, spread=0.0):
    info = {"structure": s["name"], "cliques": s["cliques"], "sizes": s["sz"], "order": list(order), "dom_order": list(dom_order),
            "zero_cells": sorted(zs), "schedule": [[x["i"], x["j"]] for x in e["hist"]], "total": total,
            "shifts": [shift(k) for k in range(len(s["pots"]))], "scale": scale, "spread": spread}
    key = (sid, tuple(order), tuple(dom_order), tuple(sorted(zs)), tuple(tuple(map(tuple, x)) for x in info["schedule"]),
           tuple(info["shifts"]), scale, total, spread)
    ctx.case(key, nontrivial=len(e["nodes"]) >= 2)
    try:
        m = build_model(s, order, dom_order, total)
        byset = {fs(c): c for c in m.cliques}
        m.message_order = [(byset[fs(x["i"])], byset[fs(x["j"])]) for x in e["hist"]]
        shifts = info["shifts"]
        pot = potentials(m, s, zs, shifts, scale, spread)
        before = {cl: pot[cl].values.copy() for cl in pot}
        with np.errstate(all="ignore"), tracing() as ev:
            marg = m.belief_propagation(pot)
            logZ = m.belief_propagation(pot, logZ=True)
    except Exception as ex:
        ctx.violation("belief_propagation raised %r" % ex, info, {"kind": "crash"})
        return
    bad = []
    dev = []
    sends = [f for k, f in ev if k == "bp.send"][:len(e["hist"])]
    if len(sends) != len(e["hist"]):
        dev.append("%d messages sent, schedule has %d" % (len(sends), len(e["hist"])))
    expo = lambda w: np.array([float(x) ** scale if x else 0.0 for x in w]) if scale == 1.0 else None
    for x, f in zip(e["hist"], sends):
        if fs(f["i"]) != fs(x["i"]) or fs(f["j"]) != fs(x["j"]):
            dev.append("message order not followed")
            break
        if scale != 1.0 or spread:
            continue    # spec tables are for scale 1; huge-magnitude runs are compared on the final marginals only
        got = to_order(f["msg"], f["msg_attrs"], x["at"])
        want = np.array(x["m"], dtype=float)
        if np.any(np.isnan(got)):
            dev.append("NaN in message %s->%s" % (x["i"], x["j"]))
            break
        with np.errstate(all="ignore"):
            g = np.exp(got - (np.max(got) if np.isfinite(np.max(got)) else 0.0))
        if want.sum() == 0:
            if np.any(np.isfinite(got)):
                dev.append("message %s->%s should be all -inf" % (x["i"], x["j"]))
                break
        elif not np.allclose(norm(g), norm(want), rtol=1e-9, atol=1e-12):
            dev.append("message %s->%s = %s (normalised), spec %s" % (x["i"], x["j"], norm(g).tolist(), norm(want).tolist()))
            break
    Z = e["Z"]
    if scale == 1.0:
        for b in e["beliefs"]:
            cl = byset[fs(b["n"])]
            got = to_order(marg[cl].values, marg[cl].domain.attrs, b["at"])
            want = np.array(b["w"], dtype=float) * total / Z
            if not np.all(np.isfinite(got)) or not np.allclose(got, want, rtol=1e-9, atol=1e-12 * total):
                bad.append("marginal on %s = %s, brute force %s" % (cl, got.tolist(), want.tolist()))
                break
        if hash(key) % 3 == 0:
            # the same object after an earlier life with other parameters: clique marginals asked through project() (variable
            # elimination, nothing cached) must be those of the CURRENT potentials and total
            try:
                s_old = dict(s, pots=[dict(p_, w=list(reversed(p_["w"]))) for p_ in s["pots"]])
                m.potentials, m.total = potentials(m, s_old, set(), [0.0] * len(s["pots"])), total * 2.0 + 1.0
                with np.errstate(all="ignore"):
                    for b in e["beliefs"]:
                        m.project(tuple(b["at"]))
                    m.potentials, m.total = pot, total
                    for b in e["beliefs"]:
                        got = np.asarray(m.project(tuple(b["at"])).values, dtype=float).reshape(-1)
                        want = np.array(b["w"], dtype=float) * total / Z
                        if got.shape != want.shape or not np.allclose(got, want, rtol=1e-9, atol=1e-12 * total):
                            bad.append("after re-parameterising the same object, project(%s) = %s, brute force %s" % (tuple(b["at"]), got.tolist(), want.tolist()))
                            break
                    # clique marginals stored on the model (as estimation leaves them), records generated from it, then asked again
                    if not bad and total >= 1:
                        import contextlib, io
                        m.marginals = m.belief_propagation(m.potentials)
                        np.random.seed(3)
                        with contextlib.redirect_stdout(io.StringIO()):
                            m.synthetic_data(rows=5, method="round")
                        for b in e["beliefs"]:
                            got = np.asarray(m.project(tuple(b["at"])).values, dtype=float).reshape(-1)
                            want = np.array(b["w"], dtype=float) * total / Z
                            if got.shape != want.shape or not np.allclose(got, want, rtol=1e-9, atol=1e-12 * total):
                                bad.append("after generating records from the model, project(%s) = %s, brute force %s" % (tuple(b["at"]), got.tolist(), want.tolist()))
                                break
                        del m.marginals
                    # the bulk path (conditionals by division) on the same object with a very small total
                    if not bad and len(e["beliefs"]) >= 2:
                        m.total = 3e-13
                        many = m.calculate_many_marginals([tuple(b["at"]) for b in e["beliefs"]])
                        for b in e["beliefs"]:
                            got = np.asarray(many[tuple(b["at"])].values, dtype=float).reshape(-1)
                            want = np.array(b["w"], dtype=float) * 3e-13 / Z
                            if got.shape != want.shape or not np.allclose(got, want, rtol=1e-9, atol=1e-28):
                                bad.append("calculate_many_marginals at total 3e-13: %s = %s, brute force %s" % (tuple(b["at"]), got.tolist(), want.tolist()))
                                break
                        m.total = total
                        if hasattr(m, "marginals"):
                            del m.marginals
            except Exception as ex:
                bad.append("project on a re-parameterised object raised %r" % ex)
        want_logZ = math.log(Z) + sum(shifts)
        if not (np.isfinite(logZ) and abs(logZ - want_logZ) <= 1e-9 * max(1.0, abs(want_logZ))):
            bad.append("logZ = %r, expected %r" % (logZ, want_logZ))
    else:
        # exact oracle in python ints is out of float range; compare in log space via scaled weights
        attrs = s["ord"]
        tabs = [(p["at"], [0.0 if (k + 1, i + 1) in zs else scale * math.log(w) for i, w in enumerate(p["w"])]) for k, p in enumerate(s["pots"])]
        for cl in m.cliques:
            got = to_order(marg[cl].values, marg[cl].domain.attrs, [a for a in attrs if a in cl])
            want = log_marg(attrs, s["sz"], s["pots"], zs, scale, [a for a in attrs if a in cl]) * total
            if not np.all(np.isfinite(got)) or not np.allclose(got, want, rtol=1e-8, atol=1e-12 * total):
                bad.append("huge-magnitude marginal on %s = %s, expected %s" % (cl, got.tolist(), want.tolist()))
                break
    for cl in m.cliques:
        if not np.all(np.isfinite(marg[cl].values)):
            bad.append("non-finite marginal on %s" % (cl,))
            break
        if abs(marg[cl].values.sum() - total) > 1e-9 * total:
            bad.append("marginal on %s sums to %r, total %r" % (cl, marg[cl].values.sum(), total))
            break
    for cl in pot:
        a, b = before[cl], pot[cl].values
        if not np.array_equal(a, b):
            bad.append("belief_propagation modified the caller's potentials on %s" % (cl,))
            break
    if bad:
        ctx.violation("exact inference differs from BeliefProp.tla: " + "; ".join((bad + dev)[:3]), info, {"kind": "replay"})
    elif dev:
        ctx.deviation("marginals exact, but intermediate messages differ from BeliefProp.tla: " + dev[0], info)


def log_marg(attrs, sizes, pots, zs, scale, proj):
    """Normalised marginal for weights w^scale computed stably in log space (independent oracle)."""
    shape = [sizes[a] for a in attrs]
    logp = np.zeros(shape)
    for k, p in enumerate(pots):
        with np.errstate(divide="ignore"):
            lw = np.array([-np.inf if (k + 1, i + 1) in zs else scale * math.log(w) for i, w in enumerate(p["w"])])
        lw = lw.reshape([sizes[a] for a in p["at"]])
        # broadcast by name
        idx = [attrs.index(a) for a in p["at"]]
        perm = np.argsort(idx)
        lw = np.transpose(lw, perm)
        sh = [1] * len(attrs)
        for a in p["at"]:
            sh[attrs.index(a)] = sizes[a]
        logp = logp + lw.reshape(sh)
    logp = logp - np.max(logp)
    pr = np.exp(logp)
    pr /= pr.sum()
    ax = tuple(i for i, a in enumerate(attrs) if a not in proj)
    mg = pr.sum(axis=ax)
    rest = [a for a in attrs if a in proj]
    return to_order(mg, rest, proj)


def own_traces(ctx, rng, count):
    """Run the code with its own greedy order and schedule on random models; log integer messages (hook H1)."""
    out = []
    tries = 0
    while len(out) < count and tries < count * 20:
        tries += 1
        n = rng.choice([3, 4, 5, 5, 6, 6, 7])
        V = list(LETTERS[:n])
        sz = {a: rng.choice([1, 2, 2, 3]) for a in V}
        k = rng.randint(1, n)
        cliques = []
        for _ in range(k):
            c = rng.sample(V, rng.randint(1, 3))
            cliques.append(tuple(c))
        pots = []
        for c in cliques:
            m = 1
            for a in c:
                m *= sz[a]
            pots.append({"at": list(c), "w": [rng.choice([0, 1, 1, 2, 3]) for _ in range(m)]})
        joint = brute_joint(V, sz, [(p["at"], p["w"]) for p in pots])
        Z = sum(joint.values())
        if Z == 0 or Z >= 2 ** 30 or math.prod(sz.values()) > 600:
            continue
        s = {"ord": V, "sz": sz, "cliques": cliques, "pots": pots, "name": "random"}
        dom_order = list(V)
        if rng.random() < 0.5:
            rng.shuffle(dom_order)
        info = {"cliques": cliques, "sizes": sz, "dom_order": dom_order, "pots": pots}
        try:
            dom = Domain(dom_order, [sz[a] for a in dom_order])
            m = GraphicalModel(dom, cliques, float(Z))
            home = observe_home(m, s)
            if any(len(h) != 1 for h in home):
                ctx.violation("an input potential is absorbed into %s maximal cliques" % [len(h) for h in home], info, {"kind": "absorb"})
                continue
            pot = potentials(m, s, set(), [0.0] * len(pots))
            with np.errstate(all="ignore"), tracing() as ev:
                marg = m.belief_propagation(pot)
        except Exception as ex:
            ctx.violation("belief_propagation raised %r" % ex, info, {"kind": "crash"})
            continue
        ctx.case(("own", tuple(cliques), tuple(dom_order), tuple(tuple(p["w"]) for p in pots)), nontrivial=len(m.cliques) >= 2)
        events = []
        for kind, f in ev:
            if kind != "bp.send":
                continue
            at = [a for a in V if a in f["msg_attrs"]]
            with np.errstate(all="ignore"):
                vals, exact = near_int(np.exp(to_order(f["msg"], f["msg_attrs"], at)))
            events.append({"e": "Send", "i": list(f["i"]), "j": list(f["j"]), "at": at, "m": vals, "exact": exact})
        bel = []
        for cl in m.cliques:
            at = [a for a in V if a in cl]
            vals, exact = near_int(to_order(marg[cl].values, marg[cl].domain.attrs, at))
            bel.append({"at": at, "w": vals, "exact": exact})
        events.append({"e": "Done", "beliefs": bel})
        out.append({"ord": V, "sz": sz, "pots": pots, "nodes": [list(c) for c in m.cliques],
                    "tree": [[list(a), list(b)] for a, b in m.junction_tree.tree.edges()],
                    "home": [list(h[0]) for h in home], "events": events, "info": info})
    return out


def corrupt(traces):
    import copy
    out = []
    for t in traces[:60]:
        sends = [i for i, e in enumerate(t["events"]) if e["e"] == "Send"]
        if len(sends) >= 2:
            c = copy.deepcopy(t)
            i = sends[len(sends) // 2]
            if c["events"][i]["m"]:
                c["events"][i]["m"][0] += 1
                c["canary"] = "message cell +1"
                out.append(c)
            if len(sends) >= 4:       # with >= 3 cliques the last message depends on an earlier one
                c = copy.deepcopy(t)
                c["events"][sends[0]], c["events"][sends[-1]] = c["events"][sends[-1]], c["events"][sends[0]]
                c["canary"] = "first and last Send swapped"
                out.append(c)
        c = copy.deepcopy(t)
        c["events"][-1]["beliefs"][0]["w"][0] += 1
        c["canary"] = "marginal cell +1"
        out.append(c)
    return out


def replay(ctx, path):
    import json
    r = json.load(open(path))["replay"]
    print(json.dumps(r, indent=1)[:3000])
    return 0
