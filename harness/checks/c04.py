"""C04 - the optimised objective, its gradient and smoothness bound are the stated ones.

spec/est/Loss.tla: integer loss / gradient / Lipschitz model; TLC checks ExactlyOnce, GradIsDerivative (exact
central differences) and SmoothnessBound (Rayleigh quotients on every clique block) and prints expected values.
"""
import itertools, json, math, os, random
import numpy as np
from scipy import sparse
from scipy.sparse.linalg import aslinearoperator
from ..core import to_tla, MachineryError
from ..pgm import Domain, Factor, CliqueVector, fs
from mbi import FactoredInference

LIP_RULE = "size"     # the rule the implementation is specified to follow (Loss.tla LipRule)
NOISES = {0.5: (16, 4), 1.0: (4, 2), 2.0: (1, 1)}      # noise -> (w4 = 4/noise^2, w2 = 2/noise)


def qcat(kind, n):
    """(matrix as int ndarray, largest eigenvalue of Q^T Q - an integer for every catalogue entry)."""
    I = np.eye(n, dtype=int)
    if kind == "identity" or kind == "none": return I, 1
    if kind == "twice": return 2 * I, 4
    if kind == "total": return np.ones((1, n), dtype=int), n
    if kind == "stack": return np.vstack([I, I]), 2
    if kind == "id+total": return np.vstack([I, np.ones((1, n), dtype=int)]), 1 + n
    if kind == "pick": return I[: max(1, n // 2)], 1
    if kind == "first": return I[:1], 1
    raise ValueError(kind)


KINDS = ["identity", "none", "twice", "total", "stack", "id+total", "pick", "first"]


def gen_instances(rng, count):
    out = []
    # the F3 shape first: measurement on an attribute shared by a larger clique listed first
    fixed = [
        (["a", "b", "c"], {"a": 3, "b": 2, "c": 2}, [(("b",), "identity", 1.0), (("b", "c"), "identity", 0.5), (("a", "b"), "identity", 2.0)]),
        (["a", "b", "c"], {"a": 2, "b": 2, "c": 3}, [(("c", "b"), "id+total", 1.0), (("b",), "twice", 0.5), (("a", "b"), "total", 1.0), (("b", "a"), "identity", 1.0)]),
        # a precisely answered one-way marginal on the attribute shared by a big and a small clique: its curvature counts n/p times,
        # with n the size of the clique the loss evaluates it on (both placements of the big clique)
        (["a", "b", "c"], {"a": 3, "b": 2, "c": 2}, [(("b",), "identity", 0.5), (("b", "c"), "identity", 2.0), (("a", "b"), "identity", 2.0)]),
        (["a", "b", "c"], {"a": 2, "b": 2, "c": 3}, [(("b",), "identity", 0.5), (("a", "b"), "identity", 2.0), (("b", "c"), "identity", 2.0)]),
        # a one-way marginal whose two containing cliques TIE in size: still counted exactly once
        (["a", "b", "c"], {"a": 2, "b": 2, "c": 2}, [(("b",), "identity", 1.0), (("a", "b"), "identity", 2.0), (("b", "c"), "identity", 2.0)]),
        (["a", "b", "c"], {"a": 3, "b": 2, "c": 3}, [(("c", "b"), "identity", 1.0), (("b",), "twice", 0.5), (("b", "a"), "identity", 1.0)]),
        # three-attribute projections in CYCLIC orders (a permutation that is not its own inverse), query omitted
        (["a", "b", "c"], {"a": 2, "b": 3, "c": 2}, [(("b", "c", "a"), "none", 1.0), (("c", "a", "b"), "identity", 0.5)]),
        (["a", "b", "c"], {"a": 2, "b": 2, "c": 2}, [(("c", "a", "b"), "none", 2.0), (("a", "b"), "identity", 1.0)]),
    ]
    for ord_, sz, ms in fixed:
        out.append(make_inst(rng, ord_, sz, ms))
    while len(out) < count:
        ord_ = ["a", "b", "c"]
        rng.shuffle(ord_)
        sz = dict(zip("abc", rng.choice([(2, 2, 3), (3, 2, 2), (2, 3, 1), (2, 2, 2)])))
        nm = rng.randint(1, 4)
        ms = []
        for _ in range(nm):
            proj = tuple(rng.sample("abc", rng.choice([1, 1, 2, 2, 2, 3])))
            ms.append((proj, rng.choice(KINDS), rng.choice([0.5, 1.0, 2.0])))
        if rng.random() < 0.3:
            ms.append((tuple(reversed(ms[0][0])), "identity", rng.choice([0.5, 1.0])))    # same attribute set, other order
        out.append(make_inst(rng, ord_, sz, ms))
    return out


def make_inst(rng, ord_, sz, ms):
    meas = []
    for proj, kind, noise in ms:
        n = 1
        for a in proj:
            n *= sz[a]
        Q, eig = qcat(kind, n)
        y = [rng.randint(0, 9) for _ in range(Q.shape[0])]
        meas.append({"proj": list(proj), "kind": kind, "noise": noise, "Q": Q.tolist(), "y": y, "eig": eig,
                     "w4": NOISES[noise][0], "w2": NOISES[noise][1]})
    ncell = 1
    for a in ord_:
        ncell *= sz[a]
    p = [rng.randint(0, 3) for _ in range(ncell)]
    if sum(p) == 0:
        p[0] = 1
    return {"ord": list(ord_), "sz": sz, "p": p, "meas": meas}


def spell(m, sz, style, nscale=1.0):
    """One spelling of measurement m -> (Q, y, noise, proj) tuple as the user would pass it."""
    Q = np.array(m["Q"], dtype=float)
    if m["kind"] == "none" and style["q"] == "none":
        Qs = None
    elif style["q"] == "sparse":
        # square diagonal queries are given in DIA format (what sparse.eye / sparse.diags produce), the others as CSR
        Qs = sparse.dia_matrix(Q) if (Q.shape[0] == Q.shape[1] and np.count_nonzero(Q - np.diag(np.diagonal(Q))) == 0) else sparse.csr_matrix(Q)
    elif style["q"] == "operator":
        Qs = aslinearoperator(sparse.csr_matrix(Q))
    else:
        Qs = Q
    proj = m["proj"]
    if style["proj"] == "str" and len(proj) == 1:
        pj = proj[0]
    elif style["proj"] == "list":
        pj = list(proj)
    else:
        pj = tuple(proj)
    return (Qs, np.array(m["y"], dtype=float), m["noise"] * nscale, pj)


def setup_engine(inst, style, metric="L2", nscale=1.0, history=False):
    dom = Domain(inst["ord"], [inst["sz"][a] for a in inst["ord"]])
    eng = FactoredInference(dom, metric=metric, iters=1, warm_start=bool(history))
    total = float(sum(inst["p"]))
    if history:
        # earlier calls on the same (warm-started) engine: the same cliques measured with other answers, and a longer list
        prior = [spell(dict(m, y=[v + 2 for v in m["y"]]), inst["sz"], style, nscale) for m in inst["meas"]]
        eng._setup(eng.fix_measurements(prior + prior[:1]), total)
        eng._setup(eng.fix_measurements(prior[:1]), total)
    meas = [spell(m, inst["sz"], style, nscale) for m in inst["meas"]]
    fixed = eng.fix_measurements(meas)
    eng._setup(fixed, total)
    return eng, meas, fixed


def marg(inst, attrs):
    shape = [inst["sz"][a] for a in inst["ord"]]
    P = np.array(inst["p"], dtype=float).reshape(shape)
    ax = tuple(i for i, a in enumerate(inst["ord"]) if a not in attrs)
    M = P.sum(axis=ax)
    rest = [a for a in inst["ord"] if a in attrs]
    return np.transpose(M, [rest.index(a) for a in attrs])


def mu_of(inst, eng):
    return CliqueVector({cl: Factor(eng.domain.project(cl), marg(inst, list(cl)).copy()) for cl in eng.model.cliques})


def run(ctx, canary=False):
    rng = random.Random(ctx.seed)
    thorough = ctx.tier == "thorough"
    ctx.rule = ("seeded measurement sets over a 3-attribute domain (sizes 1-3, any attribute order; <= 5 measurements from a catalogue "
                "of 8 query matrices with integer spectra; noise 1/2, 1, 2; projections in any order incl. both orders of one pair) are "
                "given to Loss.tla; TLC checks ExactlyOnce / GradIsDerivative / SmoothnessBound and prints the exact loss, gradient and "
                "smoothness constant, which are compared with _marginal_loss / _lipschitz / engine.groups for every spelling "
                "(dense, sparse, operator, None; str, list, tuple). non-trivial = distinct (measurement set, spelling) with >= 2 measurements")
    insts = gen_instances(rng, 90 if thorough else 36)
    # model cliques as the implementation orders them
    live = []
    for inst in insts:
        try:
            eng, _, _ = setup_engine(inst, {"q": "dense", "proj": "tuple"})
            inst["cliques"] = [list(c) for c in eng.model.cliques]
            live.append(inst)
        except Exception as ex:
            ctx.violation("_setup raised %r" % ex, {"instance": inst}, {"kind": "crash"})
    insts = live
    tinsts = [{"V": set(i["ord"]), "sz": i["sz"], "ord": i["ord"], "p": i["p"], "cliques": i["cliques"],
               "meas": [{k: m[k] for k in ("proj", "Q", "y", "w4", "w2", "eig")} for m in i["meas"]]} for i in insts]
    mc = os.path.join(ctx.work, "MC_Loss.tla")
    with open(mc, "w") as f:
        f.write("---- MODULE MC_Loss ----\nEXTENDS Loss\nMCInsts == %s\n====\n" % to_tla(tinsts))
    cfg = ("CONSTANTS\n  Insts <- MCInsts\n  LipRule = \"%s\"\nSPECIFICATION Spec\nINVARIANT ExactlyOnce\nINVARIANT GradIsDerivative\nINVARIANT L1SubGradient\n"
           "CHECK_DEADLOCK FALSE\n" % LIP_RULE)
    r = ctx.tlc(mc, cfg, name="Loss", workers=8, extra_modules=("est",), timeout=7200)
    if r.violated:
        ctx.violation("design-level: %s violated in Loss.tla" % r.violated, {"tlc": r.trace_text()}, {"kind": "design"})
    cfg2 = ("CONSTANTS\n  Insts <- MCInsts\n  LipRule = \"%s\"\nSPECIFICATION Spec\nINVARIANT SmoothnessBound\nCHECK_DEADLOCK FALSE\n" % LIP_RULE)
    r2 = ctx.tlc(mc, cfg2, name="Loss_smoothness", workers=12, extra_modules=("est",), timeout=7200, expect_violation=True)
    if r2.violated:
        ctx.violation("design-level: SmoothnessBound violated in Loss.tla under rule %s" % LIP_RULE, {"tlc": r2.trace_text()}, {"kind": "design"})
    exp = {e["iid"]: e for e in r.emits}
    if len(exp) != len(insts) and not r.violated:
        raise MachineryError("Loss.tla emitted %d of %d instances" % (len(exp), len(insts)))
    styles = [{"q": q, "proj": p} for q in ("dense", "sparse", "operator", "none") for p in ("tuple", "list", "str")]
    for i, inst in enumerate(insts, 1):
        e = exp.get(i)
        if e is None:
            continue
        use = styles if ((thorough and i <= 30) or i <= 3) else ([styles[0]] + rng.sample(styles[1:], 5) if thorough else None) or ([styles[0]] + rng.sample(styles[1:], 5) if i <= 12 else [styles[0]] + rng.sample(styles[1:], 3))
        for k, st in enumerate(use):
            # noise scaled by s: loss, gradient and smoothness constant scale by exactly 1/s^2 (L1 by 1/s); every third run is the
            # last of three calls on one warm-started engine
            check_instance(ctx, inst, e, st, nscale=[1.0, 1e-3, 1e-7, 1e2][(i + k) % 4], history=((i + k) % 3 == 2))
    large_spectrum(ctx, rng)
    ctx.sample({"instance": {k: insts[0][k] for k in ("ord", "sz", "p", "cliques")},
                "measurements": [{k: m[k] for k in ("proj", "kind", "noise", "y")} for m in insts[0]["meas"]],
                "spec": {k: exp[1][k] for k in ("group", "loss8", "l1x2", "lip4")} if 1 in exp else None})
    ctx.assumptions += ["noise scales restricted to {1/2, 1, 2} and integer query matrices so that the spec's loss is an integer",
                        "eigsh accuracy observed (1e-6 relative)", "custom callable metrics not covered"]


def large_spectrum(ctx, rng):
    """Queries with more than 20 columns and a tightly clustered leading spectrum (per-cell weighted identities): the regime in
    which an iterative eigen-solver that stops early under-estimates lambda_max. The Hessian of the squared loss for a single
    measurement on its clique is Q^T Q / noise^2, computed here densely."""
    from scipy import sparse
    from scipy.sparse.linalg import aslinearoperator
    from mbi import FactoredInference
    for n in (24, 40, 64):
        for form in ("sparse", "dense", "operator", "sparse+total"):
            w = 1.0 + 1e-3 * np.arange(n) / n + 1e-5 * np.array([rng.random() for _ in range(n)])
            noise = rng.choice([0.5, 1.0, 3.0])
            Qd = np.diag(w)
            if form == "sparse+total":
                Qd = np.vstack([Qd, 0.01 * np.ones((1, n))])
            Q = {"sparse": sparse.csr_matrix(Qd), "dense": Qd, "operator": aslinearoperator(sparse.csr_matrix(Qd)), "sparse+total": sparse.csr_matrix(Qd)}[form]
            info = {"cells": n, "query": "weighted identity (%s)" % form, "noise": noise, "weights_head": w[:4].tolist()}
            ctx.case(("large_spectrum", n, form, noise), nontrivial=True)
            try:
                dom = Domain(["a"], [n])
                eng = FactoredInference(dom, iters=1)
                meas = [(Q, np.zeros(Qd.shape[0]), noise, ("a",))]
                fixed = eng.fix_measurements(meas)
                eng._setup(fixed, total=10.0)
                L = float(eng._lipschitz(fixed))
                lam = float(np.linalg.eigvalsh(Qd.T @ Qd).max()) / noise ** 2
            except Exception as ex:
                ctx.violation("loss machinery raised %r" % ex, info, {"kind": "crash"})
                continue
            if L < lam * (1 - 1e-9):
                ctx.violation("objective differs from Loss.tla: smoothness constant %r is below the largest Hessian eigenvalue %r (relative deficit %.3g)" % (
                    L, lam, (lam - L) / lam), info, {"kind": "lipschitz"})


def check_instance(ctx, inst, e, st, nscale=1.0, history=False):
    s2 = nscale * nscale
    info = {"domain": inst["ord"], "sizes": inst["sz"], "p": inst["p"], "spelling": st, "noise_scale": nscale, "after_earlier_calls": history,
            "measurements": [{k: m[k] for k in ("proj", "kind", "noise", "y")} for m in inst["meas"]]}
    ctx.case((json.dumps(info, sort_keys=True)), nontrivial=len(inst["meas"]) >= 2)
    bad = []
    try:
        eng, meas, fixed = setup_engine(inst, st, nscale=nscale, history=history)
        mu = mu_of(inst, eng)
        # each measurement exactly once, inside a clique that contains it
        seen = []
        for cl, lst in eng.groups.items():
            for (Q, y, noise, proj) in lst:
                idx = [k for k, m in enumerate(fixed) if m[1] is y]
                if len(idx) != 1 or not set(proj) <= set(cl) or cl not in eng.model.cliques:
                    bad.append("group %s holds a foreign measurement %s" % (cl, proj))
                seen += idx
        if sorted(seen) != list(range(len(meas))):
            bad.append("measurements counted %s (each must be counted exactly once)" % sorted(seen))
        loss, grad = eng._marginal_loss(mu)
        want = e["loss8"] / 8.0 / s2
        if not math.isclose(loss, want, rel_tol=1e-12, abs_tol=1e-12 / s2):
            bad.append("L2 loss %r, spec %r" % (loss, want))
        # joint-level gradient is independent of how measurements are grouped
        G = sum(grad[cl].expand(eng.domain).values for cl in grad)
        wantG = np.array(e["gjoint4"], dtype=float).reshape(G.shape) / 4.0 / s2
        if not np.allclose(G, wantG, rtol=1e-12, atol=1e-12 / s2):
            bad.append("gradient (summed over cliques) %s, spec %s" % (G.reshape(-1).tolist(), wantG.reshape(-1).tolist()))
        # the gradient is the derivative of the loss the code itself evaluates (exact for a quadratic)
        for cl in mu:
            for idx in np.ndindex(*mu[cl].values.shape) if mu[cl].values.ndim else [()]:
                up, dn = mu_of(inst, eng), mu_of(inst, eng)
                up[cl].values[idx] += 1.0
                dn[cl].values[idx] -= 1.0
                fd = (eng._marginal_loss(up)[0] - eng._marginal_loss(dn)[0]) / 2.0
                if not math.isclose(fd, float(grad[cl].values[idx]), rel_tol=1e-9, abs_tol=1e-9 / s2):
                    bad.append("d loss / d mu[%s]%s = %r but gradient says %r" % (cl, idx, fd, float(grad[cl].values[idx])))
                    break
        # smoothness constant: equals the spec's and bounds the Hessian of the code's own gradient
        L = eng._lipschitz(fixed)
        # (the spec's constant e["lip4"]/4 is one valid choice; any upper bound satisfies the property)
        keys = list(mu.keys())
        offs, n = {}, 0
        for cl in keys:
            offs[cl] = n
            n += mu[cl].values.size
        H = np.zeros((n, n))
        g0 = np.concatenate([grad[cl].values.reshape(-1) for cl in keys])
        for cl in keys:
            for j in range(mu[cl].values.size):
                up = mu_of(inst, eng)
                up[cl].values.reshape(-1)[j] += 1.0
                g1 = eng._marginal_loss(up)[1]
                H[:, offs[cl] + j] = np.concatenate([g1[c].values.reshape(-1) for c in keys]) - g0
        lam = float(np.linalg.eigvalsh((H + H.T) / 2).max()) if n else 0.0
        if lam > L * (1 + 1e-6) + 1e-9 / s2:
            bad.append("smoothness constant %r is below the largest Hessian eigenvalue %r" % (L, lam))
        # L1
        eng1, _, fixed1 = setup_engine(inst, st, metric="L1", nscale=nscale, history=history)
        mu1 = mu_of(inst, eng1)
        l1, g1 = eng1._marginal_loss(mu1)
        if not math.isclose(l1, e["l1x2"] / 2.0 / nscale, rel_tol=1e-12, abs_tol=1e-12 / nscale):
            bad.append("L1 loss %r, spec %r" % (l1, e["l1x2"] / 2.0 / nscale))
        G1 = sum(g1[cl].expand(eng1.domain).values for cl in g1)
        wantG1 = np.array(e["g1joint2"], dtype=float).reshape(G1.shape) / 2.0 / nscale
        if not np.allclose(G1, wantG1, rtol=1e-12, atol=1e-12 / nscale):
            bad.append("L1 gradient (summed over cliques) %s, spec %s" % (G1.reshape(-1).tolist(), wantG1.reshape(-1).tolist()))
    except Exception as ex:
        ctx.violation("loss machinery raised %r" % ex, info, {"kind": "crash"})
        return
    if bad:
        kind = "lipschitz" if all("smoothness" in b or "_lipschitz" in b for b in bad) else "loss"
        ctx.violation("objective differs from Loss.tla: " + "; ".join(bad[:3]), info, {"kind": kind})


def replay(ctx, path):
    print(json.dumps(json.load(open(path)), indent=1)[:3000])
    return 0
