"""C19 - public-data reweighting yields valid weights and never a worse fit.

spec/approx/PublicMD.tla (accept/reject/step-size machine over every outcome sequence), spec/approx/PublicTrace.tla
(hook H5 traces with an independent comparison column).
"""
import itertools, json, math, random
import numpy as np
import pandas as pd
from ..core import MachineryError
from .. import trace as T
from .. import est as E
from ..pgm import Domain, Dataset
from mbi import PublicInference

MODEL_CFG = "CONSTANTS\n  Iters = %d\nSPECIFICATION Spec\nINVARIANT ReturnsLastAccepted\nINVARIANT NoDoublingAfterReject\nINVARIANT RankOK\nCHECK_DEADLOCK FALSE\n"
TRACE_CFG = "CONSTANTS\n  Iters = 250\nSPECIFICATION TraceSpec\nCONSTRAINT Marker\nPOSTCONDITION Post\nCHECK_DEADLOCK FALSE\n"


def scenario(rng):
    attrs, sizes = rng.choice([(["a", "b"], [2, 2]), (["a", "b"], [2, 3]), (["b", "a", "c"], [2, 2, 2])])
    cells = list(itertools.product(*[range(s) for s in sizes]))
    npub = rng.randint(1, 6)
    pub_cells = rng.sample(cells, rng.randint(1, min(len(cells), 3)))       # public support misses some cells
    pub = [list(rng.choice(pub_cells)) for _ in range(npub)]
    npriv = rng.choice([3, 10, 40])
    priv = [list(rng.choice(cells)) for _ in range(npriv)]
    meas = []
    for _ in range(rng.randint(1, 3)):
        proj = tuple(rng.sample(attrs, rng.choice([1, 2, 2, len(attrs)])))
        kind = rng.choice(["identity", "identity", "total", "id+total", "prefix"])
        noise = rng.choice([0.5, 1.0, 5.0])
        meas.append({"proj": list(proj), "kind": kind, "noise": noise})
    total_mode = rng.choice(["given", "given", "estimated", "other", "estimated_negative"])
    sc = {"attrs": attrs, "sizes": sizes, "public": pub, "private": priv, "meas": meas, "total_mode": total_mode,
          "noise_seed": rng.randrange(10 ** 6)}
    if rng.random() < 0.4:
        sc["second"] = [{"proj": [attrs[0]], "kind": rng.choice(["identity", "id+total"]), "noise": rng.choice([0.5, 3.0])}]
    return sc


def precise_vs_imprecise(rng):
    """Public support on which a and b are perfectly correlated; a precise measurement already matched by uniform weights
    and an imprecise one that disagrees: any sizeable move away from uniform makes the (correctly weighted) fit worse."""
    T = rng.choice([10.0, 40.0])
    k = rng.choice([1, 2, 3])
    s_lo, s_hi = rng.choice([0.05, 0.1, 0.2]), rng.choice([5.0, 10.0, 20.0])
    return {"attrs": ["a", "b"], "sizes": [2, 2], "public": [[0, 0], [1, 1]] * k, "private": [[0, 0]] * 3,
            "meas": [{"proj": ["a"], "kind": "identity", "noise": s_lo, "y": [T / 2, T / 2]},
                     {"proj": ["b"], "kind": "identity", "noise": s_hi, "y": [T, 0.0]}],
            "total_mode": "explicit", "total": T, "noise_seed": 0}


def degenerate(rng):
    """Public data on which the fit does not depend on the weights at all (every record has the same measured values), or only
    through the total (sum queries): the gradient is the same for every record."""
    kind = rng.choice(["identical_records", "total_queries", "single_cell", "single_cell"])
    if kind == "single_cell":
        # one-value attributes, total estimated from the answers: at uniform weights the gradient is a rounding residue that is
        # the same for every record
        k = rng.randint(2, 7)
        return {"attrs": ["a", "b"], "sizes": [1, 1], "public": [[0, 0]] * k, "private": [[0, 0]] * 5,
                "meas": [{"proj": ["a"], "kind": "twice", "noise": 0.5, "y": [float(rng.randint(3, 12))]},
                         {"proj": ["b"], "kind": "stack", "noise": 1.0, "y": [float(rng.randint(2, 9)), float(rng.randint(2, 9))]}],
                "total_mode": "estimated", "noise_seed": 0, "degenerate": kind}
    if kind == "identical_records":
        rec = [rng.randrange(2), rng.randrange(3)]
        pub = [list(rec)] * rng.randint(2, 7)
        meas = [{"proj": ["a"], "kind": "identity", "noise": rng.choice([0.5, 1.0])}, {"proj": ["b", "a"], "kind": "identity", "noise": 2.0}]
    else:
        pub = [[rng.randrange(2), rng.randrange(3)] for _ in range(rng.randint(2, 7))]
        meas = [{"proj": ["a"], "kind": "total", "noise": 1.0}, {"proj": ["b"], "kind": "total", "noise": 0.5}]
    return {"attrs": ["a", "b"], "sizes": [2, 3], "public": pub, "private": [[rng.randrange(2), rng.randrange(3)] for _ in range(rng.choice([5, 30]))],
            "meas": meas, "total_mode": rng.choice(["given", "estimated"]), "noise_seed": rng.randrange(10 ** 6), "degenerate": kind}


def sharp(rng):
    """Very precise answers about 1000 private records that avoid some cells, public records IN those cells listed last: their
    weights are driven to (almost) zero and must still be non-negative, exactly."""
    cells = [(i, j) for i in range(2) for j in range(3)]
    dead = rng.sample(cells, 2)
    live = [c for c in cells if c not in dead]
    priv = [list(rng.choice(live)) for _ in range(1000)]
    pub = [list(rng.choice(live)) for _ in range(rng.randint(3, 6))] + [list(dead[0]), list(dead[1])]
    return {"attrs": ["a", "b"], "sizes": [2, 3], "public": pub, "private": priv,
            "meas": [{"proj": ["a", "b"], "kind": "identity", "noise": 0.01}, {"proj": ["b"], "kind": "identity", "noise": 0.01}],
            "total_mode": rng.choice(["given", "estimated"]), "noise_seed": rng.randrange(10 ** 6)}


def sharp3(rng):
    """Three attributes, 60 public records, 1000 private records that never take a = 2, all two-way marginals answered with noise
    0.01; the LAST public record has a = 2: its weight decays to the order of the round-off of the other weights."""
    priv = [[rng.randrange(2), rng.randrange(4), rng.randrange(3)] for _ in range(1000)]
    pub = [[rng.randrange(3), rng.randrange(4), rng.randrange(3)] for _ in range(59)] + [[2, rng.randrange(4), rng.randrange(3)]]
    return {"attrs": ["a", "b", "c"], "sizes": [3, 4, 3], "public": pub, "private": priv,
            "meas": [{"proj": list(cl), "kind": "identity", "noise": 0.01} for cl in (("a", "b"), ("b", "c"), ("a", "c"))],
            "total_mode": "given", "noise_seed": rng.randrange(10 ** 6)}


def missing_end_codes(rng):
    """The public records never take the first (or last) value of a measured attribute, the private data do."""
    lo = rng.choice([0, 1])
    avals = [1, 2] if lo else [0, 1]                 # attribute a has 3 values; the public sample lacks value 0 or value 2
    pub = [[rng.choice(avals), rng.randrange(3)] for _ in range(rng.randint(4, 8))]
    pub[0][0], pub[1][0] = avals[0], avals[1]
    priv = [[rng.randrange(3), rng.randrange(3)] for _ in range(rng.choice([40, 300]))]
    return {"attrs": ["a", "b"], "sizes": [3, 3], "public": pub, "private": priv,
            "meas": [{"proj": ["a"], "kind": "identity", "noise": 1.0}, {"proj": ["a", "b"], "kind": "identity", "noise": 2.0}],
            "total_mode": rng.choice(["given", "estimated"]), "noise_seed": rng.randrange(10 ** 6)}


def repeated_clique(rng):
    """One clique measured twice - precisely, then very noisily - on public data that are an exact 1:10 sample of the private
    data (uniform weights already fit the precise answers up to their noise): both measurements count."""
    cells = [(i, j) for i in range(3) for j in range(3)]
    cnt = {c: rng.randint(1, 4) for c in cells}
    priv = [list(c) for c in cells for _ in range(10 * cnt[c])]
    pub = [list(c) for c in cells for _ in range(cnt[c])]
    rng.shuffle(pub)
    return {"attrs": ["a", "b"], "sizes": [3, 3], "public": pub, "private": priv,
            "meas": [{"proj": ["a", "b"], "kind": "identity", "noise": 1.0}, {"proj": ["a", "b"], "kind": "identity", "noise": 15.0}],
            "total_mode": "given", "noise_seed": rng.randrange(10 ** 6)}


def underflow(rng):
    """A hundred thousand private records all with a = 0, precise answers, most public records with a != 0: their weights
    underflow to exactly 0.0 and must still be reported (one weight per public record)."""
    priv = [[0, rng.randrange(3)] for _ in range(200)]
    pub = [[rng.randrange(3), rng.randrange(3)] for _ in range(40)]
    pub[0][0] = 0
    return {"attrs": ["a", "b"], "sizes": [3, 3], "public": pub, "private": priv,
            "meas": [{"proj": ["a", "b"], "kind": "identity", "noise": 1.0, "y": None}], "total_mode": "explicit", "total": 100000.0,
            "noise_seed": rng.randrange(10 ** 6), "scale_private": 500.0}


def shared_query(rng):
    """Two attributes of equal size measured with the SAME identity matrix object, with answers that differ a lot."""
    cells = [(i, j) for i in range(4) for j in range(4)]
    priv = [[min(3, rng.randrange(5)), 3 - min(3, rng.randrange(6))] for _ in range(200)]
    pub = [list(rng.choice(cells)) for _ in range(rng.randint(6, 12))]
    return {"attrs": ["a", "b"], "sizes": [4, 4], "public": pub, "private": priv,
            "meas": [{"proj": ["a"], "kind": "identity", "noise": 1.0}, {"proj": ["b"], "kind": "identity", "noise": 1.0}],
            "total_mode": "given", "noise_seed": rng.randrange(10 ** 6), "share_Q": True}


# a fixed instance of finding F19 (2 identical single-cell records, 2*I at noise 0.5 answering 6, a stacked identity answering 5, 5)
KNOWN_DEGENERATE = {"attrs": ["a", "b"], "sizes": [1, 1], "public": [[0, 0]] * 2, "private": [[0, 0]] * 5,
                    "meas": [{"proj": ["a"], "kind": "twice", "noise": 0.5, "y": [6.0]}, {"proj": ["b"], "kind": "stack", "noise": 1.0, "y": [5.0, 5.0]}],
                    "total_mode": "estimated", "noise_seed": 0, "degenerate": "single_cell"}


def big_prefix(rng):
    """Prefix-sum queries over a 64-value attribute (ill-conditioned for an iterative solver) next to a very noisy identity:
    the estimated total must be the minimum-variance combination of both."""
    cells = [(i, j) for i in range(64) for j in range(2)]
    pub = [list(rng.choice(cells)) for _ in range(rng.randint(4, 10))]
    priv = [list(rng.choice(cells)) for _ in range(rng.choice([40, 400]))]
    return {"attrs": ["a", "b"], "sizes": [64, 2], "public": pub, "private": priv,
            "meas": [{"proj": ["a"], "kind": "prefix", "noise": 2.0}, {"proj": ["b"], "kind": "identity", "noise": 40.0}],
            "total_mode": "estimated", "noise_seed": rng.randrange(10 ** 6)}


def total_oracle(meas):
    """Minimum-variance linear estimate of the total from the measurements whose queries can express the count (dense least
    squares, independent of the library's iterative solver), floored at 1."""
    est, var = [], []
    for Q, y, noise, proj in meas:
        Q = np.asarray(Q, dtype=float)
        ones = np.ones(Q.shape[1])
        v = np.linalg.lstsq(Q.T, ones, rcond=None)[0]
        if np.allclose(Q.T @ v, ones, rtol=0, atol=1e-9):
            est.append(float(v @ y)); var.append(float(noise ** 2 * (v @ v)))
    if not est:
        return 1.0
    w = 1.0 / np.array(var)
    return max(1.0, float((w * np.array(est)).sum() / w.sum()))


def build(sc):
    dom = Domain(sc["attrs"], sc["sizes"])
    pub = Dataset(pd.DataFrame(sc["public"], columns=sc["attrs"], dtype=int), dom)
    priv = Dataset(pd.DataFrame(sc["private"], columns=sc["attrs"], dtype=int), dom)
    rs = np.random.RandomState(sc["noise_seed"])
    meas = []
    for m in sc["meas"]:
        x = priv.project(list(m["proj"])).datavector()
        Q = E.qmat(m["kind"], x.size)
        y = Q @ (x * sc.get("scale_private", 1.0)) + rs.normal(0, m["noise"], Q.shape[0])
        if m.get("y") is not None:
            y = np.array(m["y"], dtype=float)
        if sc["total_mode"] == "estimated_negative":
            y = y - (x.sum() + 3.0) / max(1, x.size) * np.abs(Q).sum(axis=1)      # noisy answers whose implied total is below zero
        if sc.get("share_Q") and meas and meas[0][0].shape == Q.shape and np.array_equal(meas[0][0], Q):
            Q = meas[0][0]           # the caller re-uses ONE matrix object for measurements of different cliques
        meas.append((Q, y, m["noise"], tuple(m["proj"])))
    total = {"given": float(len(sc["private"])), "estimated": None, "other": 7.5, "estimated_negative": None,
             "explicit": sc.get("total")}[sc["total_mode"]]
    return pub, meas, total


def loss_of(weights, pub, meas):
    """Squared-error fit of weighted records, with the marginals computed by plain numpy (independent of mbi.Dataset)."""
    w = np.asarray(weights, dtype=float)
    sizes = dict(zip(pub.domain.attrs, pub.domain.shape))
    loss = 0.0
    for Q, y, noise, proj in meas:
        tab = np.zeros([sizes[a] for a in proj])
        np.add.at(tab, tuple(pub.df[a].values for a in proj), w)
        x = tab.reshape(-1)
        r = Q @ x - y
        loss += 0.5 * float(r @ r) / noise ** 2
    return loss


def to_trace(events):
    steps = [f for k, f in events if k == "pmd.step"]
    rets = [f for k, f in events if k == "pmd.return"]
    out = []
    last_acc = None
    for i, f in enumerate(steps):
        a = f["alpha"]
        ex = -int(round(math.log2(a))) if a > 0 and math.isfinite(a) else 99999
        if a <= 0 or not math.isfinite(a) or 2.0 ** (-ex) != a:
            ex = 99999
        suff = bool(f["loss"] - f["new_loss"] >= f["rhs"])
        nxt = steps[i + 1] if i + 1 < len(steps) else None
        cur_after = nxt["logP_id"] if nxt is not None else (rets[0]["logP_id"] if rets else None)
        moved = bool(cur_after == f["logQ_id"])
        if moved:
            last_acc = f["logQ_id"]
        out.append({"k": "step", "ex": ex, "begun": bool(f["begun"]), "suff": suff, "moved": moved})
    if rets:
        first = steps[0]["logP_id"] if steps else None
        out.append({"k": "return", "is_last_accepted": bool(rets[0]["logP_id"] == (last_acc if last_acc is not None else first))})
    return out, steps


def one_run(sc):
    try:
        pub, meas, total = build(sc)
        df0 = pub.df.copy()
        eng = PublicInference(pub)
        with np.errstate(all="ignore"), E.traced(("pmd.",)) as ev:
            res = eng.estimate(meas, total=total)
    except Exception as ex:
        return {"crash": repr(ex)}
    w = np.asarray(res.weights, dtype=float)
    bad, extra = [], {}
    want_total = float(total) if total is not None else total_oracle(meas)
    if w.shape != (len(sc["public"]),):
        bad.append("%s weights for %d public records" % (w.shape, len(sc["public"])))
    elif not np.all(np.isfinite(w)) or w.min() < 0:
        bad.append("weights not finite and non-negative: %s" % w.tolist())
    else:
        if abs(w.sum() - want_total) > 1e-6 * max(1.0, want_total):
            bad.append("weights sum to %r, %s total %r" % (float(w.sum()), "given" if total is not None else "estimated (minimum-variance)", want_total))
        if not res.df.equals(df0) or res.domain != pub.domain:
            bad.append("the public records were altered")
        uni = np.full(len(w), want_total / len(w))
        lu, lw = loss_of(uni, pub, meas), loss_of(w, pub, meas)
        extra = {"uniform_loss": lu, "loss": lw}
        if lw > lu * (1 + 1e-9) + 1e-9:
            bad.append("reweighted data fits worse than uniform weights: loss %r vs %r" % (lw, lu))
    # a later call on the same object with other measurements and no total: valid weights summing to THAT call's estimated total
    if sc.get("second") and not bad:
        try:
            pub2, meas2, _ = build(dict(sc, meas=sc["second"], total_mode="estimated", noise_seed=sc["noise_seed"] + 1))
            with np.errstate(all="ignore"):
                res2 = eng.estimate(meas2, total=None)
            w2 = np.asarray(res2.weights, dtype=float)
            t2 = total_oracle(meas2)
            if w2.shape != w.shape or not np.all(np.isfinite(w2)) or w2.min() < 0:
                bad.append("second call on the same object: invalid weights %s" % w2.tolist())
            elif abs(w2.sum() - t2) > 1e-6 * max(1.0, t2):
                bad.append("second call on the same object (total omitted): weights sum to %r, the total estimated from that call's measurements is %r" % (float(w2.sum()), t2))
        except Exception as ex:
            bad.append("second call on the same object raised %r" % ex)
    tr, steps = to_trace(list(ev))
    return {"bad": bad, "extra": extra, "trace": tr, "neg": sum(1 for f in steps if f["rhs"] < -1e-12),
            "inc": sum(1 for f, e in zip(steps, tr) if e["moved"] and f["new_loss"] > f["loss"] * (1 + 1e-12) + 1e-12)}


def run(ctx, canary=False):
    rng = random.Random(ctx.seed)
    thorough = ctx.tier == "thorough"
    ctx.rule = ("TLC explores PublicMD.tla over every accept/reject sequence of length %d (ReturnsLastAccepted, NoDoublingAfterReject, RankOK); "
                "PublicInference.estimate is run on fresh objects for seeded public datasets (<= 6 records whose support misses cells the private "
                "data uses, and vice versa), 1-3 measurements (identity / total / prefix queries, projections in any order incl. the full "
                "domain), noise scales, totals given / estimated / unrelated; the result must have one finite non-negative weight per record "
                "summing to the total over the unchanged public records and must not fit worse than uniform weights with that total; hook-H5 "
                "streams are validated by PublicTrace.tla. non-trivial = distinct scenario" % (12 if thorough else 10))
    r = ctx.tlc("approx/PublicMD.tla", MODEL_CFG % (12 if thorough else 10), name="PublicMD", workers=4, coverage=True, timeout=3600)
    if r.violated:
        ctx.violation("design-level: %s violated in PublicMD.tla" % r.violated, {"tlc": r.trace_text()}, {"kind": "design"})
    traces = []
    stats = {"negative_rhs_steps": 0, "accepted_increase": 0, "runs": 0}
    scs = [scenario(rng) for _ in range(900 if thorough else 110)] + [precise_vs_imprecise(rng) for _ in range(60 if thorough else 8)] + [big_prefix(rng) for _ in range(20 if thorough else 4)] + [degenerate(rng) for _ in range(30 if thorough else 6)] + [KNOWN_DEGENERATE] + [shared_query(rng) for _ in range(40 if thorough else 8)] + [missing_end_codes(rng) for _ in range(60 if thorough else 12)] + [repeated_clique(rng) for _ in range(30 if thorough else 6)] + [underflow(rng) for _ in range(10 if thorough else 3)] + [sharp(rng) for _ in range(60 if thorough else 6)] + [sharp3(rng) for _ in range(400 if thorough else 120)]
    import multiprocessing
    with multiprocessing.get_context("fork").Pool(16) as pool:
        outs = pool.map(one_run, scs, chunksize=2)
    for sc, o in zip(scs, outs):
        ctx.case(json.dumps(sc, sort_keys=True), nontrivial=True)
        info = dict(sc, **o.get("extra", {}))
        if "crash" in o:
            ctx.violation("PublicInference.estimate raised %s" % o["crash"], info, {"kind": "crash"})
            continue
        stats["runs"] += 1
        if o["bad"]:
            ctx.violation("public-data reweighting: " + "; ".join(o["bad"]), info, {"kind": "public", "degenerate": bool(sc.get("degenerate"))})
        stats["negative_rhs_steps"] += o["neg"]
        stats["accepted_increase"] += o["inc"]
        if len(traces) < (400 if thorough else 60):
            traces.append({"events": o["trace"], "info": {k: sc[k] for k in ("attrs", "sizes", "public", "total_mode")}})
    ctx.extra["line_search_stats"] = stats
    if canary:
        import copy
        can = []
        for t in traces[:40]:
            c = copy.deepcopy(t)
            st = [i for i, e in enumerate(c["events"]) if e["k"] == "step"]
            c["events"][st[len(st) // 2]]["moved"] = not c["events"][st[len(st) // 2]]["moved"]
            c["canary"] = "branch flipped"
            can.append(c)
        traces = can
    res = T.validate(ctx, "approx/PublicTrace.tla", TRACE_CFG, traces, name="PublicTrace", chunk=60, timeout=7200)
    for t, (ok, reached, ln) in zip(traces, res):
        if t.get("canary"):
            if ok:
                raise MachineryError("canary accepted: " + t["canary"])
        elif ok:
            ctx.traces_validated += 1
        else:
            # validity and fit of the weights were decided on this very run above; the loop model is more precise than C19
            ctx.deviation("run is not a behaviour of PublicMD.tla: " + T.describe_reject(t, reached), {"info": t["info"]})
    if traces:
        ctx.sample({"H5 trace": traces[0]["info"], "events": traces[0]["events"][:5]})
    ctx.assumptions += ["fresh PublicInference object per scenario; a second call on the same object is only required to return valid weights summing to its own total (the fit clause is not applied to warm-started calls)",
                        "loss recomputed from Dataset.project(...).datavector() of the returned weighted data"]


def replay(ctx, path):
    print(json.dumps(json.load(open(path)), indent=1)[:3000])
    return 0
