"""C15 - datasets vectorise to their contingency table; projection commutes; domain laws.

spec/data/DomainAlgebra.tla, spec/data/Contingency.tla (exhaustive small carriers, one test per state)
"""
import json
import numpy as np
import pandas as pd
from ..core import to_tla, MachineryError
from ..pgm import Domain, Dataset

SZ = {"a": 2, "b": 3, "c": 1, "d": 2}
DOM_INVS = ["MergeSizeLaw", "MergeSetLaw", "ComplementLaw", "CanonicalLaw", "ForeignLaw", "EmptyLaw", "SortLaw", "AxesLaw"]


def dom(layout):
    return Domain(list(layout), [SZ[a] for a in layout])


def check_domain(ctx, e):
    d1, d2, arg = dom(e["d1"]), dom(e["d2"]), list(e["arg"])
    info = {"d1": e["d1"], "d2": e["d2"], "arg": arg, "sizes": SZ}
    bad = []
    try:
        def attrs(x): return list(x.attrs)
        def shape_ok(x): return tuple(x.shape) == tuple(SZ[a] for a in x.attrs)
        for spelled in (list(arg), tuple(arg)):
            p = d1.project(spelled)
            if attrs(p) != e["project"] or not shape_ok(p): bad.append("project(%r) -> %s" % (spelled, p))
            m = d1.marginalize(spelled)
            if attrs(m) != e["marginalize"] or not shape_ok(m): bad.append("marginalize(%r) -> %s" % (spelled, m))
            if list(d1.invert(spelled)) != e["invert"]: bad.append("invert(%r) -> %s" % (spelled, d1.invert(spelled)))
            if list(d1.canonical(spelled)) != e["canonical"]: bad.append("canonical(%r) -> %s" % (spelled, d1.canonical(spelled)))
            if list(d1.axes(spelled)) != e["axes"]: bad.append("axes(%r) -> %s" % (spelled, d1.axes(spelled)))
            if d1.size(spelled) != e["size_arg"]: bad.append("size(%r) -> %s, spec %s" % (spelled, d1.size(spelled), e["size_arg"]))
            t = d1.project(spelled)
            if len(arg) == len(e["d1"]):
                tt = d1.transpose(spelled)
                if attrs(tt) != arg or not shape_ok(tt): bad.append("transpose(%r) -> %s" % (spelled, tt))
        if len(arg) == 1:
            p = d1.project(arg[0])           # the explicit bare-string branch of Domain.project
            if attrs(p) != arg: bad.append("project('%s') -> %s" % (arg[0], p))
            if d1.size(arg[0]) != SZ[arg[0]] or d1[arg[0]] != SZ[arg[0]]: bad.append("size('%s')" % arg[0])
        mg = d1.merge(d2)
        if attrs(mg) != e["merge"] or not shape_ok(mg): bad.append("merge -> %s, spec %s" % (mg, e["merge"]))
        if list(d1.canonical(e["d2"])) != e["canonical_any"]: bad.append("canonical(d2 attrs) -> %s" % (d1.canonical(e["d2"]),))
        for spelled2 in (list(e["d2"]), tuple(e["d2"])):
            if list(d1.invert(spelled2)) != e["invert_any"]: bad.append("invert(%r) -> %s, spec %s" % (spelled2, d1.invert(spelled2), e["invert_any"]))
            mg2 = d1.marginalize(spelled2)
            if attrs(mg2) != e["marginalize_any"] or not shape_ok(mg2): bad.append("marginalize(%r) -> %s, spec %s" % (spelled2, mg2, e["marginalize_any"]))
        # the library itself passes concatenated cliques (attributes named twice): canonical is a function of the SET
        rep = tuple(e["d2"]) + tuple(e["d2"][:1]) + tuple(a for a in e["d1"] if a in e["d2"])
        if list(d1.canonical(rep)) != e["canonical_any"]: bad.append("canonical(%r) -> %s, spec %s" % (rep, d1.canonical(rep), e["canonical_any"]))
        rep2 = list(arg) + list(arg)
        if list(d1.canonical(rep2)) != e["canonical"]: bad.append("canonical(%r) -> %s, spec %s" % (rep2, d1.canonical(rep2), e["canonical"]))
        if bool(d1.contains(d2)) != e["contains"]: bad.append("contains -> %s" % d1.contains(d2))
        if d1.size() != e["size"]: bad.append("size() -> %s, spec %s" % (d1.size(), e["size"]))
        if attrs(d1.sort("size")) != e["sort_size"]: bad.append("sort('size') -> %s, spec %s" % (d1.sort("size"), e["sort_size"]))
        if attrs(d1.sort("name")) != sorted(e["d1"]): bad.append("sort('name') -> %s" % (d1.sort("name"),))
        if bool(d1 == d2) != e["eq"]: bad.append("== -> %s, spec %s" % (d1 == d2, e["eq"]))
        if len(d1) != len(e["d1"]) or list(iter(d1)) != e["d1"]: bad.append("len/iter")
        if any((a in d1) != (a in e["d1"]) for a in SZ): bad.append("__contains__")
        if attrs(d1) != e["d1"] or attrs(d2) != e["d2"]: bad.append("operand mutated")
        fd = Domain.fromdict({a: SZ[a] for a in e["d1"]})
        if attrs(fd) != e["d1"] or not shape_ok(fd): bad.append("fromdict")
    except Exception as ex:
        ctx.violation("Domain operation raised %r" % ex, info, {"kind": "crash"})
        return
    if bad:
        ctx.violation("Domain differs from DomainAlgebra.tla: " + "; ".join(bad[:4]), info, {"kind": "domain"})


def check_data(ctx, e, domseq, variant=0):
    recs, proj = e["recs"], list(e["proj"])
    info = {"domain": domseq, "sizes": SZ, "records": recs, "weights": e["w"] if e["weighted"] else None, "proj": proj,
            "frame_variant": variant}
    try:
        cols = list(domseq)
        # frame columns: domain order / reversed / rotated, with or without an unused extra column
        order = [list(cols), list(reversed(cols)), cols[1:] + cols[:1], list(reversed(cols))][variant % 4]
        extra = variant % 4 in (1, 2)
        frame_cols = order + (["zz"] if extra else [])
        rows = [[r[cols.index(c)] for c in order] + ([7] if extra else []) for r in recs]
        df = pd.DataFrame(rows, columns=frame_cols, dtype=int) if rows else pd.DataFrame({c: pd.Series([], dtype=int) for c in frame_cols})
        w = np.array(e["w"], dtype=float) if e["weighted"] else None
        data = Dataset(df, dom(domseq), weights=w)
        bad = []
        full = data.datavector()
        if list(full.shape) != [int(np.prod([SZ[a] for a in domseq]))] or not np.array_equal(full, np.array(e["full"], dtype=float)):
            bad.append("datavector() = %s, contingency table %s" % (full.tolist(), e["full"]))
        nf = data.datavector(flatten=False)
        if tuple(nf.shape) != tuple(SZ[a] for a in domseq) or not np.array_equal(nf.reshape(-1), np.array(e["full"], dtype=float)):
            bad.append("datavector(flatten=False) shape %s" % (nf.shape,))
        if data.records != len(recs): bad.append("records = %s" % data.records)
        if proj:
            spellings = [list(proj), tuple(proj)] + ([proj[0]] if len(proj) == 1 else [])
            for sp in spellings:
                p = data.project(sp)
                if list(p.domain.attrs) != proj or tuple(p.domain.shape) != tuple(SZ[a] for a in proj):
                    bad.append("project(%r).domain = %s" % (sp, p.domain))
                    continue
                v = p.datavector()
                if not np.array_equal(v, np.array(e["projected"], dtype=float)):
                    bad.append("project(%r).datavector() = %s, marginal of the table %s" % (sp, v.tolist(), e["projected"]))
            dr = data.drop([a for a in domseq if a not in proj])
            if sorted(dr.domain.attrs) != sorted(proj): bad.append("drop -> %s" % (dr.domain,))
            elif not np.isclose(dr.datavector().sum(), sum(e["w"])): bad.append("drop loses weight")
    except Exception as ex:
        ctx.violation("Dataset operation raised %r" % ex, info, {"kind": "crash"})
        return
    if bad:
        ctx.violation("Dataset differs from Contingency.tla: " + "; ".join(bad[:3]), info, {"kind": "dataset"})


def big_domains(ctx):
    """The product laws on domains whose size exceeds 2^63 (e.g. the full Adult domain, 1.2e19 cells): exact integers required."""
    import math, random
    rng = random.Random(ctx.seed)
    adult = [("age", 100), ("workclass", 9), ("fnlwgt", 100), ("education", 16), ("education-num", 16), ("marital", 7), ("occupation", 15),
             ("relationship", 6), ("race", 5), ("sex", 2), ("gain", 100), ("loss", 100), ("hours", 99), ("country", 42), ("income", 2)]
    for trial in range(6):
        items = list(adult)
        rng.shuffle(items)
        if trial >= 3:
            items = [(a, n * rng.choice([1, 3])) for a, n in items]
        names, sizes = [a for a, _ in items], [n for _, n in items]
        info = {"attrs": names, "sizes": sizes}
        ctx.case(("bigdom", tuple(names), tuple(sizes)), nontrivial=True)
        bad = []
        try:
            d = Domain(names, sizes)
            full = math.prod(sizes)
            if int(d.size()) != full: bad.append("size() = %s, product of the sizes %d" % (d.size(), full))
            half = names[::2]
            pa, pb = math.prod(n for a, n in items if a in half), math.prod(n for a, n in items if a not in half)
            if int(d.size(half)) != pa: bad.append("size(%s) = %s, product %d" % (half, d.size(half), pa))
            if int(d.project(half).size()) * int(d.marginalize(half).size()) != full or int(d.project(half).size()) != pa or int(d.marginalize(half).size()) != pb:
                bad.append("size(project) * size(marginalize) = %s * %s, size %d" % (d.project(half).size(), d.marginalize(half).size(), full))
            mg = d.project(half).merge(d.marginalize(half))
            if int(mg.size()) != full: bad.append("size(merge of the two halves) = %s, product %d" % (mg.size(), full))
            if int(Domain.fromdict(dict(items)).size()) != full: bad.append("fromdict(...).size()")
        except Exception as ex:
            ctx.violation("Domain operation raised %r" % ex, info, {"kind": "crash"})
            continue
        if bad:
            ctx.violation("Domain differs from DomainAlgebra.tla (product laws, sizes beyond 2^63): " + "; ".join(bad[:3]), info, {"kind": "domain"})


def narrow_dtypes(ctx):
    """Frames whose columns are stored in narrow integer types (uint8 / int8 / int16) over a domain with more than 256 cells:
    a cell index computed in the column's own dtype wraps around."""
    import random
    rng = random.Random(ctx.seed + 5)
    dom = Domain(["a", "b"], [20, 20])
    recs = [[rng.randrange(20), rng.randrange(20)] for _ in range(60)] + [[19, 19], [13, 0], [12, 16], [0, 19]]
    want = np.zeros((20, 20))
    for a_, b_ in recs:
        want[a_, b_] += 1
    for dt in ("uint8", "int8", "int16", "uint16", "int32", "int64"):
        info = {"dtype": dt, "domain": {"a": 20, "b": 20}, "records": len(recs)}
        ctx.case(("narrow", dt), nontrivial=True)
        try:
            df = pd.DataFrame(recs, columns=["a", "b"]).astype(dt)
            ds = Dataset(df, dom)
            bad = []
            if not np.array_equal(np.asarray(ds.datavector(flatten=False)), want): bad.append("datavector(flatten=False) differs from the contingency table")
            if not np.array_equal(np.asarray(ds.datavector()), want.reshape(-1)): bad.append("datavector() differs from the contingency table")
            if not np.array_equal(np.asarray(ds.project(["b", "a"]).datavector(flatten=False)), want.T): bad.append("project(['b','a']) differs from the transposed table")
            if not np.array_equal(np.asarray(ds.project(("b",)).datavector()), want.sum(axis=0)): bad.append("project(('b',)) differs from the marginal")
        except Exception as ex:
            ctx.violation("Dataset operation raised %r" % ex, info, {"kind": "crash"})
            continue
        if bad:
            ctx.violation("Dataset differs from Contingency.tla (frame stored as %s): " % dt + "; ".join(bad), info, {"kind": "data"})


def run(ctx, canary=False):
    thorough = ctx.tier == "thorough"
    ctx.rule = ("TLC enumerates every pair of domains over {a:2,b:3,c:1,d:2} (all attribute orders) x argument sequences and "
                "checks the merge/complement/canonical/size/sort/axes laws; and every record bag of size <= %d over a 3x2x1 "
                "domain x weights x every projection sequence, checking that vectorising commutes with marginalise+transpose. "
                "Every state is replayed on Domain / Dataset (frame columns permuted, an unused extra column, ndarray weights) "
                "and compared with ==. non-trivial = distinct case with >= 2 attributes or >= 1 record" % (4 if thorough else 3))
    cfg = ("CONSTANTS\n  Univ = %s\n  Sz <- MCSz\n  ArgMax = %d\nSPECIFICATION Spec\n%s\nCHECK_DEADLOCK FALSE\n" % (
        to_tla({"a", "b", "c", "d"}), 4 if thorough else 2, "\n".join("INVARIANT " + i for i in DOM_INVS)))
    r = ctx.tlc("data/MC_Dom.tla", cfg, name="DomainAlgebra", workers=12, timeout=7200)
    if r.violated:
        ctx.violation("design-level: %s violated in DomainAlgebra.tla" % r.violated, {"tlc": r.trace_text()}, {"kind": "design"})
    for e in r.emits:
        ctx.case(("dom", tuple(e["d1"]), tuple(e["d2"]), tuple(e["arg"])), nontrivial=len(e["d1"]) >= 2)
        check_domain(ctx, e)
    if r.emits:
        ctx.sample({"domain case": r.emits[len(r.emits) // 2]})
    big_domains(ctx)
    narrow_dtypes(ctx)
    for domseq, maxrecs in ((["b", "a", "c"], 4 if thorough else 3), (["a", "d"], 4 if thorough else 3)):
        mc = "---- MODULE MC_Data2 ----\nEXTENDS Contingency\nMCSz == %s\nMCW == {<<2, 3, 5>>, <<1, 0, 4>>}\nMCDom == %s\n====\n" % (
            to_tla(SZ), to_tla(domseq))
        import os
        path = os.path.join(ctx.work, "MC_Data2.tla")
        open(path, "w").write(mc)
        cfg = ("CONSTANTS\n  Dom <- MCDom\n  Sz <- MCSz\n  MaxRecs = %d\n  Weights <- MCW\nSPECIFICATION Spec\n"
               "INVARIANT Commutes\nINVARIANT MassPreserved\nCHECK_DEADLOCK FALSE\n" % maxrecs)
        r2 = ctx.tlc(path, cfg, name="Contingency_" + "".join(domseq), workers=12, extra_modules=("data",), timeout=7200)
        if r2.violated:
            ctx.violation("design-level: %s violated in Contingency.tla" % r2.violated, {"tlc": r2.trace_text()}, {"kind": "design"})
        for k, e in enumerate(r2.emits):
            ctx.case(("data", tuple(domseq), json.dumps(e["recs"]), e["weighted"] and tuple(e["w"]), tuple(e["proj"])),
                     nontrivial=len(e["recs"]) >= 1)
            check_data(ctx, e, domseq, k)
        if r2.emits:
            ctx.sample({"dataset case": r2.emits[len(r2.emits) // 2]})
    ctx.assumptions += ["projection of a Dataset onto the EMPTY attribute list is not exercised (DESIGN C15 'not decided')",
                        "weights integer-valued floats so == is exact"]


def replay(ctx, path):
    print(json.dumps(json.load(open(path)), indent=1)[:3000])
    return 0
