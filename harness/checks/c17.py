"""C17 - the convex region-graph oracle solves its variational problem.

spec/approx/ConvexRG.tla (local polytope; TLC checks in integers that every certificate direction is feasible),
spec/approx/ConvexTrace.tla (feasibility + first-order stationarity of real runs on logged fixed-point numbers).
"""
import itertools, json, math, multiprocessing, os, random
from fractions import Fraction as Fr
import numpy as np
from ..core import to_tla, MachineryError, TSet
from .. import trace as T
from ..pgm import Domain, Factor, CliqueVector
from mbi import RegionGraph

TOL = 1e-6
STRUCTS = [
    ("chain", ["ab", "bc"]), ("chain4", ["ab", "bc", "cd"]), ("loop", ["ab", "bc", "ca"]), ("star", ["ab", "ac", "ad"]),
    ("dense4", ["ab", "ac", "ad", "bc", "bd", "cd"]), ("nested", ["abc", "ab", "b"]), ("triples", ["abc", "bcd"]),
    ("unsorted-triples", ["bac", "abd"]), ("three-level", ["abc", "bcd", "cde"]), ("nested-sub", ["abc", "bcd", "bc", "c"]),
    ("loop-triples", ["abc", "bcd", "cda"]), ("unsorted-sep3", ["cbad", "bace"]),
    # a region that only arises as an intersection of intersections; regions with two non-maximal parents without a common ancestor
    ("second-order", ["abc", "bcd", "acd"]), ("second-order-4", ["abcd", "abef", "ace"]), ("two-lines", ["abc", "ab", "ade", "ad"]),
    ("two-fans", ["abc", "abd", "aef", "aeg"]), ("mixed-parents", ["abc", "abd", "be"]),
    ("all-triples", ["abc", "abd", "acd", "bcd"]),
]


def kernel_basis(A, ncol):
    """Exact integer basis of {d : A d = 0} by Fraction Gaussian elimination."""
    M = [[Fr(x) for x in row] for row in A]
    piv = []
    r = 0
    for c in range(ncol):
        p = next((i for i in range(r, len(M)) if M[i][c] != 0), None)
        if p is None:
            continue
        M[r], M[p] = M[p], M[r]
        M[r] = [x / M[r][c] for x in M[r]]
        for i in range(len(M)):
            if i != r and M[i][c] != 0:
                M[i] = [x - M[i][c] * y for x, y in zip(M[i], M[r])]
        piv.append(c)
        r += 1
        if r == len(M):
            break
    free = [c for c in range(ncol) if c not in piv]
    basis = []
    for f in free:
        v = [Fr(0)] * ncol
        v[f] = Fr(1)
        for i, c in enumerate(piv):
            v[c] = -M[i][f]
        den = math.lcm(*[x.denominator for x in v])
        basis.append([int(x * den) for x in v])
    return basis, len(piv)


def structure(name, cliques, sz, rng):
    attrs = sorted(set("".join(cliques)))
    dom = Domain(attrs, [sz[a] for a in attrs])
    cl = [tuple(c) for c in cliques]
    rg = RegionGraph(dom, cl, total=1.0, convex=True)
    regions = list(rg.cliques)
    # The variational problem of C17 is defined by the input cliques alone: its regions are their closure under intersection and a
    # region must agree with EVERY sub-region. Both are computed here, not read off the implementation's graph: the edges are
    # the cover relations (Hasse diagram) of the closure, which imply agreement for every nested pair.
    closure = {frozenset(c) for c in cl}
    grew = True
    while grew:
        grew = False
        for r1 in list(closure):
            for r2 in list(closure):
                z = r1 & r2
                if z and z not in closure:
                    closure.add(z); grew = True
    impl_sets = [frozenset(r) for r in regions]
    region_problem = None
    if set(impl_sets) != closure or len(set(impl_sets)) != len(impl_sets):
        region_problem = "the oracle works on regions %s, the intersection closure of the input cliques is %s" % (
            sorted("".join(sorted(x)) for x in impl_sets), sorted("".join(sorted(x)) for x in closure))
    idx = {r: i for i, r in enumerate(regions)}
    edges = [(i, j) for i, ri in enumerate(impl_sets) for j, rj in enumerate(impl_sets)
             if rj < ri and not any(rj < rk < ri for rk in impl_sets)]
    impl_edges = sorted((idx[p], idx[c]) for p in regions for c in rg.children[p])
    offs, n = [], 0
    for r in regions:
        offs.append(n)
        n += dom.size(r)
    A = []
    for i, r in enumerate(regions):
        row = [0] * n
        for j in range(dom.size(r)):
            row[offs[i] + j] = 1
        A.append(row)
    for (p, c) in edges:
        rp, rc = regions[p], regions[c]
        shp = [sz[a] for a in rp]
        for cj, cell in enumerate(itertools.product(*[range(sz[a]) for a in rc])):
            row = [0] * n
            for pj, pcell in enumerate(itertools.product(*[range(s) for s in shp])):
                if all(pcell[rp.index(a)] == cell[k] for k, a in enumerate(rc)):
                    row[offs[p] + pj] = 1
            row[offs[c] + cj] = -1
            A.append(row)
    basis, rank = kernel_basis(A, n)
    dirs = [[b[offs[i]:offs[i] + dom.size(r)] for i, r in enumerate(regions)] for b in basis]
    return {"name": name, "attrs": attrs, "sz": sz, "cliques": cl, "regions": regions, "edges": edges, "dirs": dirs,
            "kernel_dim": n - rank, "ncells": n, "region_problem": region_problem, "impl_edges": impl_edges}


def worker(job):
    st, damping, total, seed, pot_regions = job[:5]
    variant = job[5] if len(job) > 5 else ""
    rs = np.random.RandomState(seed)
    try:
        dom = Domain(st["attrs"], [st["sz"][a] for a in st["attrs"]])
        if variant == "reassign":
            # LocalInference assigns model.total on an oracle object it is handed: the total in force is the current attribute
            rg = RegionGraph(dom, st["cliques"], total=total * 7.0 + 1.0, convex=True, iters=5000, convergence=1e-10, damping=damping)
            rg.total = total
        else:
            rg = RegionGraph(dom, st["cliques"], total=total, convex=True, iters=5000, convergence=1e-10, damping=damping)
        regions = list(rg.cliques)
        if [tuple(r) for r in regions] != [tuple(r) for r in st["regions"]]:
            return {"err": "region list changed between constructions"}
        theta = {}
        for r in regions:
            on = pot_regions == "all" or r in st["cliques"]
            theta[r] = (rs.randn(dom.size(r)) * 2.0 if st["name"] == "all-triples" else rs.uniform(-2, 2, dom.size(r))) if on else np.zeros(dom.size(r))
        if variant == "spread":
            # two input cliques that share an attribute get +K and -K on one of its values: each potential alone spans far
            # more than the range of exp(), the optimum is a different but equally well-defined point of the local polytope
            done = False
            for p_ in st["cliques"]:
                for q_ in st["cliques"]:
                    sh = [a for a in p_ if a in q_]
                    if p_ != q_ and sh and not done:
                        a = sh[0]
                        for r, sign in ((p_, 1.0), (q_, -1.0)):
                            shape = [st["sz"][x] for x in r]
                            ind = (np.indices(shape)[list(r).index(a)] == 0).reshape(-1)
                            theta[r] = theta[r] + sign * 900.0 * ind
                        done = True
        pv = CliqueVector({r: Factor(dom.project(r), theta[r].copy()) for r in regions})
        with np.errstate(all="ignore"):
            mu = rg.belief_propagation(pv)
        tabs = {r: np.asarray(mu[r].values, dtype=float) for r in regions}
    except Exception as ex:
        return {"err": repr(ex)}
    ev = []
    u = lambda x: int(round(max(min(x, 2000.0), -2000.0) * 1e6))
    finite = all(np.all(np.isfinite(t)) for t in tabs.values())
    for r in regions:
        t = tabs[r]
        ev.append({"k": "region", "sumerr": u((t.sum() - total) / total) if finite else 0, "minmass": u(t.min() / total) if finite else -1, "finite": bool(finite)})
    if finite:
        for (p, c) in st["edges"]:
            rp, rc = regions[p], regions[c]
            mp = tabs[rp].sum(axis=tuple(j for j, a in enumerate(rp) if a not in rc))
            keep = [a for a in rp if a in rc]
            mp = np.transpose(mp, [keep.index(a) for a in rc])
            ev.append({"k": "edge", "mismatch": u(float(np.abs(mp - tabs[rc]).sum()) / total)})
        with np.errstate(all="ignore"):
            g = [theta[r] - np.log(tabs[r].reshape(-1) / total) for r in regions]
        worst = 0.0
        for d in st["dirs"]:
            num = sum(float(np.dot(np.array(d[i], dtype=float), g[i])) for i in range(len(regions)))
            nrm = math.sqrt(sum(float(np.dot(np.array(d[i], dtype=float), np.array(d[i], dtype=float))) for i in range(len(regions))))
            val = num / max(nrm, 1.0)
            worst = max(worst, abs(val)) if math.isfinite(val) else float("inf")
            ev.append({"k": "dir", "gdot": u(val) if math.isfinite(val) else 2000000000})
    else:
        worst = float("inf")
    ev.append({"k": "rank", "span": len(st["dirs"]), "kernel": st["kernel_dim"]})
    return {"events": ev, "worst": worst}


def run(ctx, canary=False):
    rng = random.Random(ctx.seed)
    thorough = ctx.tier == "thorough"
    ctx.rule = ("for %d region structures (trees, single loop, dense pairs, nested, 2- and 3-level triples, cliques spelled in unsorted "
                "attribute order with equal-size multi-attribute separators) the harness computes an exact integer basis of the tangent space "
                "of the local polytope; TLC verifies in integers that every basis direction is feasible (ConvexRG.tla) and evidence records that "
                "the basis spans the kernel; RegionGraph(convex=True, 5000 sweeps, convergence 1e-10) is run for dampings 0.1/0.5/0.9, totals, "
                "potentials on the input cliques or on every region, and ConvexTrace.tla checks region normalisation, parent-child agreement "
                "and stationarity along every direction at 1e-6. non-trivial = distinct (structure, damping, total, potential draw)" % len(STRUCTS))
    sts = []
    for name, cl in STRUCTS:
        attrs = sorted(set("".join(cl)))
        sz = {a: 2 for a in attrs}
        if name in ("chain", "loop", "nested"):
            sz[attrs[0]] = 3
        if name == "all-triples":
            sz.update({"b": 3, "d": 3})
        try:
            sts.append(structure(name, cl, sz, rng))
            if sts[-1]["region_problem"]:
                ctx.violation("convex oracle does not pose the stated variational problem: " + sts[-1]["region_problem"], {"cliques": cl}, {"kind": "regions"})
                sts.pop()
        except Exception as ex:
            ctx.violation("RegionGraph(convex=True) construction raised %r on %s" % (ex, cl), {"cliques": cl}, {"kind": "crash"})
    # ---- TLC: every certificate direction is feasible (exact integers)
    tl = [{"sz": s["sz"], "regions": [list(r) for r in s["regions"]], "edges": TSet([[p + 1, c + 1] for p, c in s["edges"]]),
           "dirs": s["dirs"]} for s in sts]
    mc = os.path.join(ctx.work, "MC_Convex.tla")
    with open(mc, "w") as f:
        f.write("---- MODULE MC_Convex ----\nEXTENDS ConvexRG\nMCStructs == %s\n====\n" % to_tla(tl))
    r = ctx.tlc(mc, "CONSTANTS\n  Structs <- MCStructs\nSPECIFICATION Spec\nINVARIANT AllFeasible\nINVARIANT NonTrivial\nCHECK_DEADLOCK FALSE\n",
                name="ConvexRG", workers=8, extra_modules=("approx",), timeout=7200)
    if r.violated:
        raise MachineryError("a certificate direction is not feasible (%s): the certificate would be unsound\n%s" % (r.violated, r.trace_text()))
    ctx.extra["structures"] = {s["name"]: {"regions": len(s["regions"]), "cells": s["ncells"], "kernel_dim": s["kernel_dim"], "directions": len(s["dirs"])} for s in sts}
    jobs, meta = [], []
    reps = 6 if thorough else 1
    for s in sts:
        # (on the dense graph of all triples the parallel schedule of the unmodified oracle oscillates for ever at damping 0.1 with
        # strong potentials - no run "to convergence" exists there, so the property says nothing; 0.5 and 0.9 converge)
        for damping in ((0.5, 0.9) if s["name"] == "all-triples" else (0.1, 0.5, 0.9)):
            # dense graphs of triples only converge when old messages keep enough weight: more draws at the largest damping
            for _ in range(reps * (5 if (s["name"] == "all-triples" and damping == 0.9) else 1)):
                total = rng.choice([1.0, 10.0, 1000.0])
                pr = rng.choice(["cliques", "all"])
                seed = rng.randrange(10 ** 6)
                variant = rng.choice(["", "", "reassign", "spread"])
                jobs.append((s, damping, total, seed, pr, variant)); meta.append((s["name"], damping, total, seed, pr, variant))
    with multiprocessing.get_context("fork").Pool(16) as pool:
        results = pool.map(worker, jobs, chunksize=1)
    traces = []
    worst = 0.0
    for (name, damping, total, seed, pr, variant), res in zip(meta, results):
        info = {"structure": name, "cliques": dict(STRUCTS)[name], "damping": damping, "total": total, "potential_seed": seed, "potentials_on": pr,
                "variant": variant}
        ctx.case(json.dumps(info, sort_keys=True), nontrivial=True)
        if "err" in res:
            ctx.violation("convex oracle raised %s" % res["err"], info, {"kind": "crash"})
            continue
        if math.isfinite(res["worst"]):
            worst = max(worst, res["worst"])
        traces.append({"tol": int(TOL * 1e6), "events": res["events"], "info": info})
    ctx.extra["worst_stationarity_residual"] = worst
    if canary:
        import copy
        can = []
        for t in traces[:30]:
            ds = [i for i, e in enumerate(t["events"]) if e["k"] == "dir"]
            if ds:
                c = copy.deepcopy(t)
                c["events"][ds[0]]["gdot"] += 500
                c["canary"] = "stationarity residual of 5e-4 injected"
                can.append(c)
        traces = can
    res = T.validate(ctx, "approx/ConvexTrace.tla", "SPECIFICATION TraceSpec\nCONSTRAINT Marker\nPOSTCONDITION Post\nCHECK_DEADLOCK FALSE\n", traces,
                     name="ConvexTrace", chunk=100, timeout=7200)
    for t, (ok, reached, ln) in zip(traces, res):
        if t.get("canary"):
            if ok:
                raise MachineryError("canary accepted: " + t["canary"])
        elif ok:
            ctx.traces_validated += 1
        else:
            e = t["events"][reached - 1] if reached <= len(t["events"]) else {}
            what = {"edge": "a region disagrees with its sub-region (L1 mismatch %s micro-units of the total)" % e.get("mismatch"),
                    "region": "a region's table is not finite / non-negative / normalised (%s)" % e,
                    "dir": "not stationary: gradient . feasible direction = %s micro-units" % e.get("gdot"),
                    "rank": "directions do not span the tangent space"}.get(e.get("k"), str(e))
            if e.get("k") == "rank":
                raise MachineryError("certificate directions do not span the kernel: " + str(e))
            ctx.violation("convex oracle does not return the optimum of its variational problem: " + what, {"info": t["info"], "event": e},
                          {"kind": "certificate", "clause": e.get("k")})
    if traces:
        ctx.sample({"run": traces[0]["info"], "events": traces[0]["events"][:4]})
    ctx.assumptions += ["'run to convergence' is taken as 5000 sweeps with convergence 1e-10", "only unit counting numbers (the public constructor's choice)",
                        "dot products gradient . direction are formed in floating point by the harness; TLC verifies the directions and the thresholds"]


def replay(ctx, path):
    print(json.dumps(json.load(open(path)), indent=1)[:3000])
    return 0
