"""C03 - estimation attains the global optimum over all distributions.

spec/est/OptInstances.tla: KKT-certified instances with exact optimum L* (oracle model-checked against brute force:
OracleSound, GapBound); spec/est/Solvers.tla + SolverTrace.tla bind the line search.  Arbitrary inputs are decided by
the a-posteriori gap bound that GapBound validates.
"""
import json, math, multiprocessing, os, random
import numpy as np
from ..core import to_tla, MachineryError
from .. import est as E
from .. import trace as T

NOISES = {0.5: (16, 4), 1.0: (4, 2), 2.0: (1, 1)}
ITERS = 3000


def qint(kind, n):
    return np.rint(E.qmat(kind, n)).astype(int)


BRUTE_CELLS = 4


def base(rng, nattr=None, small=False):
    nattr = nattr or rng.choice([2, 3])
    attrs = list("abcd"[:nattr])
    order = attrs[:]
    rng.shuffle(order)
    if nattr == 4:
        sz = dict(zip(attrs, (2, 2, 2, 2)))
    elif small:
        sz = dict(zip(attrs, rng.choice([(2, 2), (2, 3), (3, 2)] if BRUTE_CELLS >= 6 else [(2, 2), (2, 2), (1, 3)]) if nattr == 2 else (2, 2, 1)))
    else:
        sz = dict(zip(attrs, rng.choice([(2, 3), (3, 3), (2, 2)]) if nattr == 2 else rng.choice([(2, 3, 2), (2, 2, 2), (3, 2, 2)])))
    ncell = math.prod(sz[a] for a in order)
    tot = rng.choice([3, 4, 5]) if small else rng.choice([6, 10, 17])
    p = [0] * ncell
    for _ in range(tot):
        p[rng.randrange(ncell)] += 1
    if rng.random() < 0.5:                          # force some empty cells: optimum on the boundary
        i = rng.randrange(ncell)
        j = (i + 1) % ncell
        p[j] += p[i]
        p[i] = 0
    return {"order": order, "sz": sz, "x": [float(v) for v in p], "meas": [], "zeros": {}, "brute": bool(small and ncell <= BRUTE_CELLS and tot <= 5)}


def add_meas(inst, proj, kind, noise, resid=None):
    n = math.prod(inst["sz"][a] for a in proj)
    Q = qint(kind, n)
    y = Q @ np.rint(E.true_marginal(inst, list(proj)).reshape(-1)).astype(int)
    if resid is not None:
        y = y + np.array(resid, dtype=int)
    inst["meas"].append({"proj": list(proj), "kind": kind, "noise": noise, "y": [float(v) for v in y]})


def families(rng, count, small_share=0.35):
    out = []
    kinds = ["identity", "none", "twice", "total", "stack", "id+total", "prefix", "first"]
    while len(out) < count:
        small = rng.random() < small_share
        inst = base(rng, small=small)
        fam = rng.choice(["realisable", "replicated", "nested", "boundary", "random", "cyclic", "tree4"])
        if fam == "tree4":
            # a junction tree whose hub clique sorts after its neighbours: (a,d), (b,c), (c,d)
            inst = base(rng, nattr=4)
            inst["order"] = sorted(inst["order"])
            inst["brute"] = False
            for pr in (("a", "d"), ("b", "c"), ("c", "d")):
                add_meas(inst, pr, "identity", rng.choice([0.5, 1.0, 2.0]))
            d = [4 * rng.randint(-1, 1) for _ in range(4)]
            s1, s2 = rng.choice([0.5, 1.0]), rng.choice([1.0, 2.0])
            add_meas(inst, ("c", "d"), "identity", s1, [int(s1 * s1 * v) for v in d])
            add_meas(inst, ("d", "c"), "identity", s2, permute([-int(s2 * s2 * v) for v in d], ("c", "d"), inst["sz"]))
            inst["family"] = fam
            out.append(inst)
            continue
        attrs = inst["order"]
        def rproj(k=None):
            return tuple(rng.sample(attrs, k or rng.choice([1, 2, min(2, len(attrs))])))
        if fam == "realisable":
            for _ in range(rng.randint(1, 3)):
                add_meas(inst, rproj(), rng.choice(kinds), rng.choice([0.5, 1.0, 2.0]))
        elif fam == "cyclic" and len(attrs) == 3:
            a, b, c = attrs
            for pr in ((a, b), (c, b), (a, c)):
                add_meas(inst, pr, "identity", rng.choice([0.5, 1.0, 2.0]))
            # consistent residuals: replicate one pair with opposite weighted residual
            n = inst["sz"][a] * inst["sz"][b]
            d = [4 * rng.randint(-1, 1) for _ in range(n)]
            s1, s2 = rng.choice([0.5, 1.0, 2.0]), rng.choice([0.5, 1.0, 2.0])
            add_meas(inst, (a, b), "identity", s1, [int(s1 * s1 * v) for v in d])
            add_meas(inst, (a, b), "identity", s2, [-int(s2 * s2 * v) for v in d])
        elif fam == "replicated":
            pr = rproj()
            n = math.prod(inst["sz"][x] for x in pr)
            d = [4 * rng.randint(-2, 2) for _ in range(n)]
            s1, s2 = rng.choice([0.5, 1.0, 2.0]), rng.choice([0.5, 1.0, 2.0])
            add_meas(inst, pr, "identity", s1, [int(s1 * s1 * v) for v in d])
            add_meas(inst, tuple(reversed(pr)), "identity", s2, permute([-int(s2 * s2 * v) for v in d], pr, inst["sz"]))
            if rng.random() < 0.5:
                add_meas(inst, rproj(), rng.choice(kinds), 1.0)
        elif fam == "nested" and len(attrs) >= 2:
            a, b = rng.sample(attrs, 2)
            rho = [4 * rng.randint(-2, 2) for _ in range(inst["sz"][a])]
            s_ab, s_a = rng.choice([0.5, 1.0, 2.0]), rng.choice([0.5, 1.0, 2.0])
            R = [-int(rho[i] * s_ab * s_ab) for i in range(inst["sz"][a]) for _ in range(inst["sz"][b])]
            r = [int(rho[i] * s_a * s_a) for i in range(inst["sz"][a])]
            add_meas(inst, (a, b), "identity", s_ab, R)
            add_meas(inst, (a,), "identity", s_a, r)
        elif fam == "boundary":
            pr = tuple(attrs) if rng.random() < 0.5 else rproj(min(2, len(attrs)))
            m = np.rint(E.true_marginal(inst, list(pr)).reshape(-1)).astype(int)
            delta = rng.choice([0, 1, 2])
            resid = [(-rng.randint(1, 6) - v) if v == 0 else delta for v in m]
            add_meas(inst, pr, "identity", rng.choice([0.5, 1.0, 2.0]), resid)
        else:
            for _ in range(rng.randint(1, 3)):
                pr = rproj()
                n = qint("identity", math.prod(inst["sz"][x] for x in pr)).shape[0]
                add_meas(inst, pr, "identity", rng.choice([0.5, 1.0, 2.0]), [rng.choice([0, 0, 0, 1, -1]) for _ in range(n)])
        if inst["meas"]:
            inst["family"] = fam
            out.append(inst)
    return out


def permute(vals, proj, sz):
    """values laid out along proj -> laid out along reversed(proj)"""
    shape = [sz[a] for a in proj]
    return np.transpose(np.array(vals).reshape(shape), list(reversed(range(len(proj))))).reshape(-1).tolist()


def tla_inst(inst):
    ms = []
    for m in inst["meas"]:
        n = math.prod(inst["sz"][a] for a in m["proj"])
        ms.append({"proj": m["proj"], "Q": qint(m["kind"], n).tolist(), "y": [int(round(v)) for v in m["y"]],
                   "w4": NOISES[m["noise"]][0], "w2": NOISES[m["noise"]][1], "eig": 1})
    return {"V": set(inst["order"]), "sz": inst["sz"], "ord": inst["order"], "p": [int(v) for v in inst["x"]],
            "cliques": [inst["order"]], "meas": ms, "brute": inst["brute"]}


def joint_grad(inst, p):
    """Gradient of the L2 loss w.r.t. the full joint at table p (float)."""
    order = inst["order"]
    shape = [inst["sz"][a] for a in order]
    P = np.asarray(p, dtype=float).reshape(shape)
    G = np.zeros(shape)
    loss = 0.0
    for m in inst["meas"]:
        proj = m["proj"]
        ax = tuple(i for i, a in enumerate(order) if a not in proj)
        M = P.sum(axis=ax)
        rest = [a for a in order if a in proj]
        mv = np.transpose(M, [rest.index(a) for a in proj]).reshape(-1)
        Q = E.qmat(m["kind"], mv.size)
        r = Q @ mv - np.array(m["y"])
        loss += 0.5 * float(r @ r) / m["noise"] ** 2
        back = (Q.T @ r) / m["noise"] ** 2
        B = back.reshape([inst["sz"][a] for a in proj])
        B = np.transpose(B, [proj.index(a) for a in rest])          # to domain order of the kept axes
        sh = [inst["sz"][a] if a in proj else 1 for a in order]
        G += B.reshape(sh)
    return loss, G


def nnls_optimum(inst, total):
    """Minimum of the L2 objective over non-negative tables of the given total, by an independent active-set solver (scipy nnls on
    the joint; the total enforced by a row of weight 1e5 x the problem's scale). Slightly BELOW the constrained minimum."""
    from scipy.optimize import nnls
    order = inst["order"]
    shape = [inst["sz"][a] for a in order]
    n = int(np.prod(shape))
    rows, rhs = [], []
    for m in inst["meas"]:
        proj = m["proj"]
        ax = tuple(i for i, a in enumerate(order) if a not in proj)
        rest = [a for a in order if a in proj]
        cols = []
        for j in range(n):
            e = np.zeros(n); e[j] = 1.0
            M = e.reshape(shape).sum(axis=ax)
            cols.append(np.transpose(M, [rest.index(a) for a in proj]).reshape(-1))
        Pm = np.array(cols).T
        Q = E.qmat(m["kind"], Pm.shape[0])
        rows.append(Q @ Pm / m["noise"])
        rhs.append(np.array(m["y"], dtype=float) / m["noise"])
    A, b = np.vstack(rows), np.concatenate(rhs)
    w = 1e5 * max(1.0, float(np.abs(A).max()))
    A2, b2 = np.vstack([A, w * np.ones((1, n))]), np.concatenate([b, [w * total]])
    p, _ = nnls(A2, b2, maxiter=200 * n)
    r = A @ p - b
    return 0.5 * float(r @ r)


def scaled(inst, K, S):
    """Data multiplied by K and noise by S: loss, optimum and gap bound scale by exactly K^2/S^2."""
    return dict(inst, x=[v * K for v in inst["x"]], meas=[dict(m, y=[v * K for v in m["y"]], noise=m["noise"] * S) for m in inst["meas"]])


def worker(job):
    inst, solver, iters, total_mode = job[:4]
    if len(job) > 5 and job[5]:
        inst = scaled(inst, *job[5])
    try:
        eng = E.make_engine(inst, iters)
        meas = E.measurements(inst, "mixed")
        total = float(sum(inst["x"])) if total_mode == "given" else None
        if len(job) > 4 and job[4]:
            # an earlier call on the same engine object with re-measured (different) answers: must not influence this one
            prior = dict(inst, meas=[dict(m, y=[v + 3.0 * ((i % 3) - 1) for i, v in enumerate(m["y"])]) for m in inst["meas"]])
            eng.iters = 15
            E.run_estimate(eng, E.measurements(prior, "dense"), total, solver)
            eng.iters = iters
        model, ev = E.run_estimate(eng, meas, total, solver)
        with np.errstate(all="ignore"):
            loss = E.l2_loss_of_model(model, [(None if m[0] is None else m[0], m[1], m[2], m[3]) for m in meas])
            p = model.datavector()
            lj, G = joint_grad(inst, p)
            gap = float(np.sum(p.reshape(G.shape) * (G - G.min())))
            tot = float(model.total)
            uni = np.full(p.shape, tot / p.size)
            l0, G0 = joint_grad(inst, uni)
            gap0 = float(np.sum(uni.reshape(G0.shape) * (G0 - G0.min())))
        tr = E.solver_trace(ev, solver, iters, False) if iters <= 60 else None
        return {"ok": True, "loss": loss, "loss_joint": lj, "gap": gap, "l0": l0, "gap0": gap0, "total": tot, "trace": tr}
    except Exception as ex:
        return {"ok": False, "err": repr(ex)}


def run(ctx, canary=False):
    rng = random.Random(ctx.seed)
    thorough = ctx.tier == "thorough"
    ctx.rule = ("candidate (witness table, measurement set) pairs from six families (realisable, replicated with opposite weighted "
                "residuals, nested pairs, boundary optima, cyclic, random perturbations; dense/None queries, noise 1/2,1,2, projections in "
                "any order) are certified by OptInstances.tla (KKT in integers; OracleSound and GapBound by brute force on the small ones); "
                "each certified instance is estimated with MD, RDA and IG (%d iterations) and the loss recomputed from model.project must "
                "lie in [L* - 1e-9, L* + 1e-4 max(1, L0-L*)]; short runs (1,2,5,50 iterations) must not be worse than the uniform start and "
                "their H2 streams are validated by SolverTrace.tla; uncertified (arbitrary noisy) instances are decided by the gap bound. "
                "non-trivial = distinct (instance, solver, iterations)" % ITERS)
    global BRUTE_CELLS
    BRUTE_CELLS = 6 if thorough else 4
    cands = families(rng, 120 if thorough else 60)
    mc = os.path.join(ctx.work, "MC_Opt.tla")
    with open(mc, "w") as f:
        f.write("---- MODULE MC_Opt ----\nEXTENDS OptInstances\nMCInsts == %s\n====\n" % to_tla([tla_inst(i) for i in cands]))
    cfg = ("CONSTANTS\n  Insts <- MCInsts\n  LipRule = \"size\"\nSPECIFICATION OSpec\nINVARIANT OracleSound\nINVARIANT GapBound\nCHECK_DEADLOCK FALSE\n")
    r = ctx.tlc(mc, cfg, name="OptInstances", workers=12, extra_modules=("est",), timeout=14400)
    if r.violated:
        ctx.violation("design-level: %s violated in OptInstances.tla (the optimality oracle itself is wrong)" % r.violated,
                      {"tlc": r.trace_text()}, {"kind": "design"})
    cert = {e["iid"]: e for e in r.emits}
    certified = [(cands[i - 1], e["loss8"] / 8.0) for i, e in sorted(cert.items()) if e["kkt"]]
    uncert = [cands[i - 1] for i, e in sorted(cert.items()) if not e["kkt"]]
    ctx.extra["candidates"] = len(cands)
    ctx.extra["certified"] = len(certified)
    ctx.extra["brute_forced"] = sum(1 for c in cands if c["brute"])
    fams = {}
    for inst, _ in certified:
        fams[inst["family"]] = fams.get(inst["family"], 0) + 1
    ctx.extra["certified_by_family"] = fams
    if len(certified) < 8:
        raise MachineryError("too few certified instances: %d" % len(certified))
    ncert = min(len(certified), 30) if thorough else 14
    pick = certified[:ncert]
    jobs, meta = [], []
    for inst, lstar in pick:
        for solver in ("MD", "RDA", "IG"):
            second = rng.random() < 0.3
            jobs.append((inst, solver, ITERS, "given", second)); meta.append(("opt", inst, lstar, solver, ITERS))
        s = rng.choice(["MD", "RDA", "IG"])
        n = rng.choice([1, 2, 5, 50])
        jobs.append((inst, s, n, "given")); meta.append(("short", inst, lstar, s, n))
    # the same certified optima at other scales: a million records measured with noise of hundreds or thousands of counts
    for inst, lstar in pick[:6]:
        K, S = rng.choice([(1e5, 1e3), (1e6, 1e2), (1e4, 10.0)])
        for solver in ("MD", rng.choice(["RDA", "IG"])):
            jobs.append((inst, solver, ITERS, "given", False, (K, S))); meta.append(("opt", scaled(inst, K, S), lstar * K * K / (S * S), solver, ITERS))
    # arbitrary noisy inputs, total given or estimated: decided by the gap certificate
    arb = uncert[: (15 if thorough else 6)]
    for k in range(20 if thorough else 8):
        arb.append(E.gen_instance(rng, nattr=rng.choice([2, 3]), max_meas=4, zeros_prob=0.0, allow_empty=False,
                                  kinds=["identity", "none", "twice", "total", "stack", "id+total", "prefix"]))
    # chordless cycles of five and six attributes with noisy (mutually inconsistent) pair measurements: elimination needs
    # several rounds of fill-in, and an optimum reported from tables that are not the marginals of one joint would show
    for ncyc in ([5, 6] if thorough else [5]):
        inst = E.gen_instance(rng, nattr=5, max_meas=0, zeros_prob=0.0, allow_empty=True, sizes=[2] * 5)
        if ncyc == 6:
            inst["order"].append("f"); inst["sz"]["f"] = 2
            inst["x"] = [float(v) for v in np.repeat(np.array(inst["x"]), 2)]
        names = list(inst["order"])
        for i in range(ncyc):
            pr = [names[i], names[(i + 1) % ncyc]]
            y = E.true_marginal(inst, pr).reshape(-1) + np.array([rng.gauss(0, 3.0) for _ in range(4)])
            inst["meas"].append({"proj": pr, "kind": "identity", "noise": 3.0, "y": [float(v) for v in y]})
        arb.append(inst)
    for inst in arb:
        s = rng.choice(["MD", "RDA", "IG"])
        mode = rng.choice(["given", "estimated"])
        jobs.append((inst, s, ITERS, mode)); meta.append(("gap", inst, None, s, ITERS))
    # a heavily weighted identity (50 I) given as a scipy-sparse matrix between a dense and an operator query: the smoothness
    # constant the accelerated solvers step with must cover it
    for s in ("RDA", "IG"):
        inst = E.gen_instance(rng, nattr=3, max_meas=0, zeros_prob=0.0, allow_empty=True, sizes=[2, 3, 2])
        a_ = inst["order"]
        for pr, kind, noise in (([a_[0]], "identity", 1.0), ([a_[0], a_[1]], "w50", 1.0), ([a_[1], a_[2]], "identity", 2.0)):
            Q = E.qmat(kind, math.prod(inst["sz"][x] for x in pr))
            y = Q @ E.true_marginal(inst, pr).reshape(-1) + np.array([rng.gauss(0, noise) for _ in range(Q.shape[0])])
            inst["meas"].append({"proj": pr, "kind": kind, "noise": noise, "y": [float(v) for v in y]})
        jobs.append((inst, s, ITERS, "given")); meta.append(("gapL", inst, None, s, ITERS))
    # a noisy chain over attributes of 2, 3, 4 and 5 values (total 100): well conditioned, the unmodified solvers meet the optimum
    # of an independent active-set solver to 1e-12; long accelerated runs make the potentials large, which is where message
    # arithmetic that is not stabilised slice by slice goes wrong
    for _ in range(2 if thorough else 1):
        inst = E.gen_instance(rng, nattr=4, max_meas=0, zeros_prob=0.0, allow_empty=True, sizes=[2, 3, 4, 5])
        a_ = inst["order"]
        sc_ = 100.0 / sum(inst["x"])
        inst["x"] = [v * sc_ for v in inst["x"]]
        for pr in ([a_[0], a_[1]], [a_[1], a_[2]], [a_[2], a_[3]]):
            Q = E.qmat("identity", math.prod(inst["sz"][x] for x in pr))
            y = Q @ E.true_marginal(inst, pr).reshape(-1) + np.array([rng.gauss(0, 2.0) for _ in range(Q.shape[0])])
            inst["meas"].append({"proj": pr, "kind": "identity", "noise": 2.0, "y": [float(v) for v in y]})
        for s in ("RDA", "IG", "MD"):
            jobs.append((inst, s, ITERS, "given")); meta.append(("nnls_tight", inst, None, s, ITERS))
    # a second call on the same engine whose answers are EXACTLY those of uniform tables (loss 0 at the start, immediate exit of
    # mirror descent) after a first call with other answers on the same cliques: the optimum is 0 and must be reported
    for s in ("MD", "MD", rng.choice(["RDA", "IG"])):
        inst = E.gen_instance(rng, nattr=3, max_meas=0, zeros_prob=0.0, allow_empty=True, sizes=[2, 2, 2])
        inst["x"] = [1.0] * 8          # total 8: the uniform tables reproduce the answers bit for bit (loss exactly 0.0)
        a_ = inst["order"]
        for pr in ([a_[0], a_[1]], [a_[1], a_[2]], [a_[0]]):
            Q = E.qmat("identity", math.prod(inst["sz"][x] for x in pr))
            inst["meas"].append({"proj": pr, "kind": "identity", "noise": 1.0, "y": [float(v) for v in Q @ E.true_marginal(inst, pr).reshape(-1)]})
        jobs.append((inst, s, 50, "given", True)); meta.append(("opt", inst, 0.0, s, 50))
    with multiprocessing.get_context("fork").Pool(16) as pool:
        results = pool.map(worker, jobs, chunksize=1)
    traces = []
    worst = {"opt": 0.0, "gap": 0.0}
    for (kind, inst, lstar, solver, iters), res in zip(meta, results):
        info = {"kind": kind, "instance": {k: inst[k] for k in ("order", "sz", "x", "meas")}, "family": inst.get("family", "noisy"),
                "solver": solver, "iters": iters, "L_star": lstar}
        ctx.case(json.dumps(info, sort_keys=True), nontrivial=True)
        if not res["ok"]:
            ctx.violation("estimate raised %s" % res["err"], info, {"kind": "crash", "solver": solver})
            continue
        L, L0 = res["loss"], res["l0"]
        info.update(loss=L, uniform_loss=L0, gap=res["gap"])
        if not math.isfinite(L):
            ctx.violation("returned model has non-finite loss", info, {"kind": "nan", "solver": solver})
            continue
        if abs(L - res["loss_joint"]) > 1e-6 * max(1.0, L):
            ctx.violation("loss from model.project (%r) differs from loss of model.datavector (%r)" % (L, res["loss_joint"]), info,
                          {"kind": "incoherent", "solver": solver})
        if kind == "opt":
            worst["opt"] = max(worst["opt"], (L - lstar) / max(1.0, L0 - lstar))
            if L > lstar + 1e-4 * max(1.0, L0 - lstar):
                ctx.violation("%s after %d iterations: loss %r is above the certified optimum %r (uniform start %r)" % (solver, iters, L, lstar, L0),
                              info, {"kind": "above_optimum", "solver": solver})
            if L < lstar - 1e-9 * max(1.0, lstar):
                ctx.violation("%s: loss %r is BELOW the minimum %r achievable by any non-negative table" % (solver, L, lstar), info,
                              {"kind": "below_optimum", "solver": solver})
        elif kind == "short":
            if L > L0 * (1 + 1e-9) + 1e-9:
                ctx.violation("%s after %d iteration(s): loss %r is worse than the uniform start %r" % (solver, iters, L, L0), info,
                              {"kind": "worse_than_uniform", "solver": solver})
            if L < lstar - 1e-9 * max(1.0, lstar):
                ctx.violation("%s: loss %r is BELOW the certified minimum %r" % (solver, L, lstar), info, {"kind": "below_optimum", "solver": solver})
            if res["trace"]:
                res["trace"]["info"] = {"solver": solver, "iters": iters, "family": inst.get("family")}
                traces.append(res["trace"])
        elif kind == "nnls_tight":
            lopt = nnls_optimum(inst, res["total"])
            ctx.extra.setdefault("nnls_tight_excess", []).append((L - lopt) / max(1.0, lopt))
            if L > lopt * (1 + 1e-3) + 1e-6:
                ctx.violation("%s after %d iterations: loss %r is above the optimum %r found by an independent active-set solver" % (solver, iters, L, lopt),
                              dict(info, L_star=lopt), {"kind": "above_optimum", "solver": solver})
            if L < lopt * (1 - 1e-6) - 1e-9:
                ctx.violation("%s: loss %r is BELOW the minimum %r achievable by any non-negative table" % (solver, L, lopt), dict(info, L_star=lopt),
                              {"kind": "below_optimum", "solver": solver})
        elif kind == "gapL":
            # an instance dominated by one heavy measurement: compared with an independently computed optimum (active-set NNLS)
            lopt = nnls_optimum(inst, res["total"])
            ctx.extra.setdefault("nnls_excess", []).append((L - lopt) / max(1.0, lopt))
            # (the unmodified RDA is itself still ~1% above this optimum after 3000 iterations on such an ill-conditioned instance,
            # so "above" is only flagged at 10%: a solver stepping with a far too small smoothness constant diverges or stalls)
            if L > lopt * 1.10 + 1e-6:
                ctx.violation("%s after %d iterations: loss %r is above the optimum %r found by an independent active-set solver" % (solver, iters, L, lopt),
                              dict(info, L_star=lopt), {"kind": "above_optimum", "solver": solver})
            if L < lopt * (1 - 1e-6) - 1e-9:
                ctx.violation("%s: loss %r is BELOW the minimum %r achievable by any non-negative table" % (solver, L, lopt), dict(info, L_star=lopt),
                              {"kind": "below_optimum", "solver": solver})
        else:
            rel = res["gap"] / max(res["gap0"], 1e-300)
            worst["gap"] = max(worst["gap"], rel)
            # the bound shrinks only like 1/t at boundary optima (mass on cells that should be empty decays slowly): over 300 runs
            # of the unmodified code the worst ratio to the bound at the uniform start was 5.7e-4; threshold ~18x above
            if res["gap"] > 1e-2 * res["gap0"] + 1e-9:
                ctx.violation("%s after %d iterations: optimality gap bound %r is %.3g of the bound at the uniform start (loss %r, uniform %r): "
                              "the returned model is not optimal" % (solver, iters, res["gap"], rel, L, L0), info, {"kind": "gap", "solver": solver})
    ctx.extra["worst_relative_excess"] = worst
    res = T.validate2(ctx, "est/SolverTrace.tla", E.SOLVER_TRACE_CFG, E.SOLVER_TRACE_CFG_LENIENT, traces, name="SolverTrace", chunk=200, timeout=7200) if traces else []
    for t, (ok, okl, reached, reachedl, ln) in zip(traces, res):
        if ok:
            ctx.traces_validated += 1
        elif okl:
            ctx.deviation("the optimum is reached, but the line search is not a behaviour of Solvers.tla: " + T.describe_reject(t, reached), t["info"])
        else:
            reached = reachedl
            ctx.violation("solver event stream rejected by SolverTrace.tla: " + T.describe_reject(t, reached),
                          {"trace_info": t["info"], "events_near": t["events"][max(0, reached - 3):reached + 1]}, {"kind": "trace"})
    inst, lstar = pick[0]
    ctx.sample({"certified instance": {k: inst[k] for k in ("order", "sz", "x", "family")}, "measurements": inst["meas"], "L_star": lstar})
    ctx.assumptions += ["convergence is judged after a fixed %d iterations (rate not derived)" % ITERS, "metric L2 only",
                        "the gap bound is evaluated in floating point by the driver; OptInstances.tla validates the bound itself (GapBound)"]


def replay(ctx, path):
    print(json.dumps(json.load(open(path)), indent=1)[:3000])
    return 0
