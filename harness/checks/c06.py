"""C06 - private data reaches mechanism output only through the DP primitives.

spec/dp/NonInterference.tla (taint model of every mechanism: no branch, scale, candidate set or output depends on the
private data except through a release/selection), spec/dp/NITrace.tla (pairs of real lock-step executions).
"""
import json, random
from ..core import MachineryError
from .. import trace as T
from .. import mechcheck as MC

NI_CFG = ("CONSTANTS\n  Mechs = {\"MST\", \"AIM\", \"MWEM\", \"AdaGrid\"}\n  Bounded = {TRUE, FALSE}\nSPECIFICATION Spec\nINVARIANT NoLeak\n"
          "INVARIANT PublicStaysPublic\nCHECK_DEADLOCK FALSE\n")
TRACE_CFG = "SPECIFICATION TraceSpec\nCONSTRAINT Marker\nPOSTCONDITION Post\nCHECK_DEADLOCK FALSE\n"


def run(ctx, canary=False):
    rng = random.Random(ctx.seed + 1)
    thorough = ctx.tier == "thorough"
    ctx.rule = ("TLC checks the taint model of the four mechanisms (NoLeak, PublicStaysPublic; bounded MWEM's use of the record count is the "
                "one named exception); each mechanism is run under RNG interposition on seeded datasets incl. empty / one-cell / constant-"
                "attribute data, then re-run on neighbours (all add/remove-one or replace-one; quick: 5 per dataset) that observe the recorded "
                "released values, selected indices and post-processing draws; NITrace.tla requires identical primitive sequences (kind, noise, "
                "bitwise scale, shape, candidate count), identical returned data and conformance to the input's original domain. "
                "non-trivial = distinct (mechanism, parameters, dataset, neighbour)")
    r = ctx.tlc("dp/NonInterference.tla", NI_CFG, name="NonInterference", workers=2, coverage=True, timeout=3600)
    if r.violated:
        ctx.violation("design-level: %s violated in NonInterference.tla" % r.violated, {"tlc": r.trace_text()}, {"kind": "design"})
    scs = MC.scenarios(rng, 160 if thorough else 28, include_known=False)
    # constant attribute / noise-dominated regimes
    for name in ("MST", "AIM", "MWEM", "AdaGrid"):
        p = {"epsilon": rng.choice([0.02, 1.0]), "delta": 1e-6}
        if name == "AIM":
            p["rounds"] = 3
        if name == "MWEM":
            p.update(noise="gaussian", bounded=False, rounds=2, alpha=0.9)
        if name == "AdaGrid":
            p.update(targets=[], split_strategy=None, threshold=5.0)
        scs.append({"mech": name, "params": p, "attrs": ["a", "b", "c"], "sizes": [2, 3, 2],
                    "records": [[0, rng.randrange(3), rng.randrange(2)] for _ in range(6)], "seed": rng.randrange(10 ** 6)})
    scs += MC.threshold_ladders(rng)
    # signal-dominated regime: hundreds of records in few cells and little noise, so that data-dependent tests that are
    # saturated on tiny datasets ("the model moved less than the noise") can flip between D and D plus many records
    for name in ("AIM", "MWEM", "MST", "AdaGrid"):
        p = {"epsilon": 10.0, "delta": 1e-3}
        if name == "AIM":
            p["rounds"] = 6
        if name == "MWEM":
            p.update(noise="gaussian", bounded=False, rounds=3, alpha=0.9)
        if name == "AdaGrid":
            p.update(targets=[], split_strategy=None, threshold=5.0)
        recs = [[0, 0, 0]] * 150 + [[1, 1, 1]] * 120 + [[rng.randrange(2), rng.randrange(3), rng.randrange(2)] for _ in range(30)]
        scs.append({"mech": name, "params": p, "attrs": ["a", "b", "c"], "sizes": [2, 3, 2], "records": recs, "seed": rng.randrange(10 ** 6),
                    "grow": ([0, 1, 1], 1500), "forced_neighbours": [("add(0, 1, 1)", recs + [[0, 1, 1]]), ("remove#0", recs[1:])], "only_forced_nb": True})
    # weighted records (Dataset(df, domain, weights)): a neighbour drops one whole record, among them the heaviest one
    for name in ("MST", "AIM", "MWEM", "AdaGrid"):
        p = {"epsilon": 3.0, "delta": 1e-6}
        if name == "AIM":
            p["rounds"] = 3
        if name == "MWEM":
            p.update(noise="gaussian", bounded=False, rounds=2, alpha=0.9)
        if name == "AdaGrid":
            p.update(targets=[], split_strategy=None, threshold=5.0)
        recs = [[rng.randrange(2), rng.randrange(3), rng.randrange(2), w_] for w_ in (1.0, 3.0, 0.5, 2.0, 1.5, 1.0)]
        forced = [("remove#%d (weight %s)" % (i, recs[i][-1]), recs[:i] + recs[i + 1:]) for i in (1, 2, 0)]
        scs.append({"mech": name, "params": p, "attrs": ["a", "b", "c"], "sizes": [2, 3, 2], "records": recs, "seed": rng.randrange(10 ** 6),
                    "forced_neighbours": forced, "only_forced": True, "weighted": True})
    # AIM handed the caller's random source (prng=...)
    scs.append({"mech": "AIM", "params": {"epsilon": 3.0, "delta": 1e-6, "rounds": 3, "prng": True}, "attrs": ["a", "b", "c"], "sizes": [2, 3, 2],
                "records": [[rng.randrange(2), rng.randrange(3), rng.randrange(2)] for _ in range(6)], "seed": rng.randrange(10 ** 6)})
    # AIM with declared structural zeros; the neighbours put records into a declared-impossible cell
    for _ in range(2):
        p = {"epsilon": 3.0, "delta": 1e-6, "rounds": 4, "structural_zeros": {"a,b": [[0, 2], [1, 0]]}}
        recs = [[0, 0, rng.randrange(2)], [0, 1, rng.randrange(2)], [1, 1, 0], [1, 2, 1], [1, 1, 1], [0, 0, 1]]
        scs.append({"mech": "AIM", "params": p, "attrs": ["a", "b", "c"], "sizes": [2, 3, 2], "records": recs, "seed": rng.randrange(10 ** 6),
                    "forced_neighbours": [("add(0, 2, 1)", recs + [[0, 2, 1]]), ("add(1, 0, 0)", recs + [[1, 0, 0]]), ("remove#0", recs[1:])],
                    "only_forced_nb": True, "grow": ([0, 2, 1], 40)})
    # wide tables (11 binary attributes: 55 candidate pairs), where implementations are tempted to prune candidates
    wide = [chr(ord("a") + i) for i in range(11)]
    for name in ("AdaGrid", "MST"):
        p = {"epsilon": 2.0, "delta": 1e-6}
        if name == "AdaGrid":
            p.update(targets=[], split_strategy=None, threshold=5.0)
        scs.append({"mech": name, "params": p, "attrs": wide, "sizes": [2] * 11, "records": [[rng.randrange(2) for _ in wide] for _ in range(10)],
                    "seed": rng.randrange(10 ** 6), "wide": True})
    jobs, results = MC.run_all(scs, None if thorough else 5, rng, far=True)
    traces = []
    for (sc, nb), res in zip(jobs, results):
        info = {"mechanism": sc["mech"], "params": sc["params"], "attrs": sc["attrs"], "sizes": sc["sizes"], "records": sc["records"], "seed": sc["seed"]}
        if res["err1"]:
            ctx.case(json.dumps(info, sort_keys=True))
            ctx.violation("%s %s on the dataset itself" % (sc["mech"], res["err1"]), info, {"kind": "crash", "mechanism": sc["mech"]})
            continue
        for pr in res["pairs"]:
            pinfo = dict(info, neighbour=pr["label"], differences=pr["c06_diffs"], replay_error=pr["err2"])
            if pr.get("on_path"):
                pinfo.update(records=pr["base_records"], neighbour_records=pr["neighbour_records"], observations_recorded_on=sc["records"])
            ctx.case(json.dumps([info, pr["label"]], sort_keys=True), nontrivial=True)
            if pr["err2"] and not pr["err2"].startswith("diverged"):
                ctx.violation("%s on neighbour %s %s" % (sc["mech"], pr["label"], pr["err2"]), pinfo, {"kind": "crash", "mechanism": sc["mech"]})
                continue
            if pr["err2"]:
                ctx.violation("%s: the neighbour run cannot consume the recorded observations (%s): control flow depends on the private data" % (
                    sc["mech"], pr["err2"]), pinfo, {"kind": "diverged", "mechanism": sc["mech"]})
                continue
            traces.append({"domain_attrs": sc["attrs"], "domain_shape": sc["sizes"], "events": pr["ni_events"], "info": pinfo, "mech": sc["mech"]})
    if canary:
        import copy
        can = []
        for t in traces[:40]:
            c = copy.deepcopy(t)
            c["events"][-1]["same_output"] = False
            c["canary"] = "outputs differ"
            can.append(c)
            if len(t["events"]) > 2:
                c = copy.deepcopy(t)
                c["events"][0]["n2"] += 1
                c["canary"] = "operand shape differs"
                can.append(c)
        traces = can
    res = T.validate(ctx, "dp/NITrace.tla", TRACE_CFG, [{k: v for k, v in t.items() if k != "mech"} for t in traces], name="NITrace", chunk=300, timeout=7200)
    for t, (ok, reached, ln) in zip(traces, res):
        if t.get("canary"):
            if ok:
                raise MachineryError("canary accepted: " + t["canary"])
        elif ok:
            ctx.traces_validated += 1
        else:
            ctx.violation("%s: executions on neighbouring datasets that observed identical releases and selections differ: %s" % (
                t["mech"], "; ".join(t["info"]["differences"]) or T.describe_reject(t, reached)), {"info": t["info"], "event": t["events"][reached - 1] if reached <= len(t["events"]) else None},
                {"kind": "interference", "mechanism": t["mech"]})
    if traces:
        ctx.sample({"pair": {k: traces[0]["info"][k] for k in ("mechanism", "params", "records", "neighbour")}, "events": traces[0]["events"][:3]})
    ctx.assumptions += ["timing / memory side channels out of scope", "environment shims as in C05", "FactoredInference iterations capped at 25 (post-processing)"]


def replay(ctx, path):
    print(json.dumps(json.load(open(path)), indent=1)[:4000])
    return 0
