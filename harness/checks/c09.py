"""C09 - known totals are honoured; unknown totals are the best linear estimate.

spec/est/Total.tla: witness-certified catalogue (TLC verifies every witness), inverse-variance combination,
noise-free theorem.  Sizes 1..3 come from TLC; sizes up to 64 from the same parametric families with the
witness verified in Fraction arithmetic by a transliteration of WitnessOK, cross-checked against TLC.
"""
import json, math, os, random
from fractions import Fraction as Fr
import numpy as np
from scipy import sparse
from scipy.sparse.linalg import aslinearoperator
from ..core import to_tla, MachineryError, TSet
from ..pgm import Domain, Dataset
from mbi import FactoredInference, LocalInference, PublicInference
from mbi import public_inference
import pandas as pd

FAMILIES = ["identity", "scaled", "prefix", "total", "stack", "id+total", "blocks", "pickfirst", "column", "unimod", "dup-rows-out"]


def family(kind, n, rng=None):
    """(Q rows as ints, witness) or None if the family does not exist at size n."""
    I = [[1 if i == j else 0 for j in range(n)] for i in range(n)]
    if kind == "identity":
        return I, ("in", [1] * n, 1, [1] * n, 1)
    if kind == "scaled":
        return [[3 * x for x in r] for r in I], ("in", [1] * n, 3, [1] * n, 9)
    if kind == "prefix":
        Q = [[1 if j <= i else 0 for j in range(n)] for i in range(n)]
        return Q, ("in", [0] * (n - 1) + [1], 1, [0] * (n - 1) + [1], 1)
    if kind == "total":
        return [[1] * n], ("in", [1], 1, [1] * n, n)
    if kind == "stack":
        return I + I, ("in", [1] * (2 * n), 2, [1] * n, 2)
    if kind == "id+total":
        return I + [[1] * n], ("in", [1] * n + [n], n + 1, [1] * n, n + 1)
    if kind == "blocks":
        if n < 2 or n % 2:
            return None
        Q = [[1 if j // 2 == i else 0 for j in range(n)] for i in range(n // 2)]
        return Q, ("in", [1] * (n // 2), 1, [1] * n, 2)
    if kind == "pickfirst":
        if n < 2:
            return None
        return [I[0]], ("out", [0, 1] + [0] * (n - 2))
    if kind == "dup-rows-out":
        if n < 3:
            return None
        return [I[0], I[0], [0, 1] + [0] * (n - 2)], ("out", [0, 0, 1] + [0] * (n - 3))
    if kind == "column":
        if n != 1:
            return None
        return [[1], [2], [2]], ("in", [1, 2, 2], 9, [1], 9)
    if kind == "unimod":
        if n < 2 or n > 6:
            return None
        # product of elementary integer shears: unimodular, so ones is in the row space; witness by exact solve
        r = rng or random.Random(n)
        Q = [row[:] for row in I]
        for _ in range(2 * n):
            i, j = r.sample(range(n), 2)
            c = r.choice([-1, 1])
            Q[i] = [a + c * b for a, b in zip(Q[i], Q[j])]
        if max(abs(x) for row in Q for x in row) > 4:
            return None
        v = solve_exact([[Q[i][j] for i in range(n)] for j in range(n)], [1] * n)     # Q^T v = 1
        w = solve_exact(Q, v)                                                          # Q w = v
        vd = math.lcm(*[x.denominator for x in v])
        wd = math.lcm(*[x.denominator for x in w])
        if vd > 40 or wd > 40:
            return None
        return Q, ("in", [int(x * vd) for x in v], vd, [int(x * wd) for x in w], wd)
    raise ValueError(kind)


def solve_exact(A, b):
    n = len(A)
    M = [[Fr(x) for x in row] + [Fr(bi)] for row, bi in zip(A, b)]
    for c in range(n):
        p = next(r for r in range(c, n) if M[r][c] != 0)
        M[c], M[p] = M[p], M[c]
        M[c] = [x / M[c][c] for x in M[c]]
        for r in range(n):
            if r != c and M[r][c] != 0:
                M[r] = [x - M[r][c] * y for x, y in zip(M[r], M[c])]
    return [M[i][n] for i in range(n)]


def witness_ok(Q, wit, n):
    """Transliteration of WitnessOK in Total.tla (exact)."""
    if wit[0] == "in":
        _, v, vd, w, wd = wit
        ok1 = all(sum(Q[i][j] * v[i] for i in range(len(Q))) == vd for j in range(n))
        ok2 = all(sum(Q[i][j] * w[j] for j in range(n)) * vd == v[i] * wd for i in range(len(Q)))
        return ok1 and ok2
    z = wit[1]
    return all(sum(Q[i][j] * z[j] for j in range(n)) == 0 for i in range(len(Q))) and sum(z) != 0


def expected_total(ms):
    """ms: list of (Q, wit, s2 Fraction, y ints) -> Fraction (same formulas as Total.tla Result)."""
    num, den = Fr(0), Fr(0)
    for Q, wit, s2, y in ms:
        if wit[0] != "in":
            continue
        v = [Fr(a, wit[2]) for a in wit[1]]
        var = s2 * sum(a * a for a in v)
        est = sum(a * b for a, b in zip(v, y))
        num += est / var
        den += 1 / var
    if den == 0:
        return Fr(1)
    return max(Fr(1), num / den)


def xvec(n, N):
    return [N // n + (1 if j >= n - (N % n) else 0) for j in range(n)]


def spelled(Q, style):
    A = np.array(Q, dtype=float)
    if style == "sparse":
        return sparse.csr_matrix(A)
    if style == "operator":
        return aslinearoperator(sparse.csr_matrix(A))
    return A


def run_engines(ctx, ms, want, info, rng, engines=("factored", "local", "public")):
    """ms: list of (Q rows, noise float, y list). Compare every importable copy of the total estimator."""
    sizes = [len(Q[0]) for Q, _, _ in ms]
    attrs = ["m%d" % i for i in range(len(ms))]
    # two measurements of the same size may be taken on the SAME marginal (same projection, different query matrix)
    proj_of = list(range(len(ms)))
    for i in range(1, len(ms)):
        if sizes[i] == sizes[0] and rng.random() < 0.5:
            proj_of[i] = 0
    if not ms:
        attrs, sizes = ["m0"], [2]
    dom = Domain(attrs, sizes)
    style = rng.choice(["dense", "sparse", "operator"])
    # one measurement may be handed over in other units: (cQ, cy, c noise) carries exactly the same information for every c > 0
    # (the usual "divide the query by its noise level" normalisation is c = 1/sigma)
    unit = rng.choice([1.0, 1.0, 0.02, 0.05, 64.0])
    info = dict(info, spelling=style, domain=dict(zip(attrs, sizes)), units_of_first_measurement=unit)
    def sc_(i, arr):
        return arr * (unit if i == 0 else 1.0)
    meas = [(spelled((np.array(Q, dtype=float) * (unit if i == 0 else 1.0)).tolist(), style), sc_(i, np.array(y, dtype=float)), float(noise) * (unit if i == 0 else 1.0),
             (attrs[proj_of[i]],)) for i, (Q, noise, y) in enumerate(ms)]
    info["projections"] = [attrs[p] for p in proj_of]
    got = {}
    try:
        if "factored" in engines:
            m = FactoredInference(dom, iters=1).estimate(list(meas), total=None)
            got["FactoredInference"] = float(m.total)
            if ms:
                got["FactoredInference.project-sum"] = float(m.project((attrs[0],)).values.sum())
        if "local" in engines and ms:
            eng = LocalInference(dom, iters=1, marginal_oracle="convex")
            eng._setup(list(meas), None)
            got["LocalInference"] = float(eng.model.total)
            if max(sizes) <= 8:
                # a caller-built oracle object (constructed with its default total): the tables it returns carry the estimated total
                from mbi import RegionGraph
                orc = RegionGraph(dom, [m_[3] for m_ in meas], convex=True, iters=3)
                eng2 = LocalInference(dom, iters=1, marginal_oracle=orc)
                with np.errstate(all="ignore"):
                    m2 = eng2.estimate(list(meas), total=None)
                got["LocalInference(oracle object).project-sum"] = float(np.asarray(m2.project(meas[0][3]).values, dtype=float).sum())
        if "public" in engines:
            got["public_inference.estimate_total"] = float(public_inference.estimate_total(list(meas)))
            if ms and max(sizes) <= 16:
                # the whole PublicInference.estimate path (7 public records): the weights carry the estimated total
                k = 7
                pub = Dataset(pd.DataFrame({a: [(3 * j + i) % n for j in range(k)] for i, (a, n) in enumerate(zip(attrs, sizes))}), dom)
                # (the line search itself is C19's subject: it is replaced by "uniform weights with the total it is handed")
                orig = public_inference.entropic_mirror_descent
                public_inference.entropic_mirror_descent = lambda lg, x0, total, iters=250: np.asarray(x0, dtype=float) * total / np.sum(x0)
                try:
                    with np.errstate(all="ignore"):
                        res = PublicInference(pub).estimate(list(meas), total=None)
                finally:
                    public_inference.entropic_mirror_descent = orig
                got["total handed to the reweighting by PublicInference.estimate"] = float(np.asarray(res.weights, dtype=float).sum())
    except Exception as ex:
        ctx.violation("total estimation raised %r" % ex, info, {"kind": "crash"})
        return
    bad = ["%s = %r, spec %s = %r" % (k, v, want, float(want)) for k, v in got.items()
           if not math.isclose(v, float(want), rel_tol=1e-8, abs_tol=1e-9)]
    if bad:
        ctx.violation("estimated total differs from Total.tla: " + "; ".join(bad), info, {"kind": "total"})


def run(ctx, canary=False):
    rng = random.Random(ctx.seed)
    thorough = ctx.tier == "thorough"
    ctx.rule = ("TLC verifies the witness of every catalogue matrix (sizes 1-3) and enumerates every measurement list of length <= 2 "
                "over catalogue x noise variances {1/4,1,4} x dataset sizes x {noise-free, perturbed}, checking NoiseFree/AtLeastOne/NoUsable "
                "and printing the exact rational total; lists are replayed on FactoredInference, LocalInference and "
                "public_inference.estimate_total (dense/sparse/operator). Sizes 4..64 use the same families with witnesses verified in "
                "Fraction arithmetic. non-trivial = distinct measurement list with >= 1 usable measurement")
    # catalogue for TLC
    cat = []
    for n in (1, 2, 3):
        for kind in FAMILIES:
            fam = family(kind, n, random.Random(100 + n))
            if fam is None:
                continue
            Q, wit = fam
            if not witness_ok(Q, wit, n):
                raise MachineryError("bad witness for %s n=%d" % (kind, n))
            cat.append({"kind": kind, "n": n, "Q": Q, "wit": wit})
    tcat = [{"n": c["n"], "Q": c["Q"], "wit": list(c["wit"])} for c in cat]
    mc = os.path.join(ctx.work, "MC_Total.tla")
    with open(mc, "w") as f:
        f.write("---- MODULE MC_Total ----\nEXTENDS Total\nMCCat == %s\nMCS2 == {<<1, 4>>, <<1, 1>>, <<4, 1>>}\nMCPerts == {0, 3, -7}\n====\n" % to_tla(tcat))
    cfg = ("CONSTANTS\n  Cat <- MCCat\n  S2s <- MCS2\n  Ns = {1, 5}\n  Perts <- MCPerts\n  MaxLen = 2\nSPECIFICATION Spec\nINVARIANT NoiseFree\n"
           "INVARIANT AtLeastOne\nINVARIANT NoUsable\nCHECK_DEADLOCK FALSE\n")
    r = ctx.tlc(mc, cfg, name="Total", workers=12, extra_modules=("est",), timeout=7200)
    if r.violated:
        ctx.violation("design-level: %s violated in Total.tla" % r.violated, {"tlc": r.trace_text()}, {"kind": "design"})
    emits = r.emits
    rng.shuffle(emits)
    ctx.extra["spec_cases"] = len(emits)
    for e in emits[: (20000 if thorough else 700)]:
        ms, fr = [], []
        for m in e["ms"]:
            c = cat[m["c"] - 1]
            s2 = Fr(m["s2"][0], m["s2"][1])
            ms.append((c["Q"], math.sqrt(float(s2)), m["y"]))
            fr.append((c["Q"], c["wit"], s2, m["y"]))
        want = Fr(e["total"][0], e["total"][1])
        if expected_total(fr) != want:
            raise MachineryError("python transliteration disagrees with Total.tla: %s vs %s on %s" % (expected_total(fr), want, e))
        info = {"measurements": [{"family": cat[m["c"] - 1]["kind"], "n": cat[m["c"] - 1]["n"], "s2": m["s2"], "y": m["y"]} for m in e["ms"]],
                "N": e["N"], "perturbed": e["pert"]}
        ctx.case(json.dumps(info, sort_keys=True), nontrivial=len(e["used"]) >= 1)
        run_engines(ctx, ms, want, info, rng)
    if emits:
        ctx.sample({"spec case": emits[0]})
    # larger sizes through the verified parametric families
    nbig = 1500 if thorough else 120
    for _ in range(nbig):
        k = rng.randint(1, 3)
        N = rng.choice([1, 7, 100, 12345])
        ms, fr, desc = [], [], []
        for _ in range(k):
            n = rng.choice([4, 5, 6, 8, 13, 16, 31, 64])
            kind = rng.choice(FAMILIES)
            fam = family(kind, n, random.Random(rng.randrange(10 ** 6)))
            if fam is None:
                continue
            Q, wit = fam
            if not witness_ok(Q, wit, n):
                raise MachineryError("bad witness for %s n=%d" % (kind, n))
            s2 = rng.choice([Fr(1, 4), Fr(1), Fr(4), Fr(9)])
            x = xvec(n, N)
            y = [sum(a * b for a, b in zip(row, x)) for row in Q]
            if rng.random() < 0.5:
                y[0] += rng.choice([-2, 3])
            ms.append((Q, math.sqrt(float(s2)), y))
            fr.append((Q, wit, s2, y))
            desc.append({"family": kind, "n": n, "s2": str(s2), "y0": y[0]})
        want = expected_total(fr)
        info = {"measurements": desc, "N": N}
        ctx.case(json.dumps(info, sort_keys=True), nontrivial=any(w[1][0] == "in" for w in fr))
        run_engines(ctx, ms, want, info, rng)
    # a supplied total is used exactly, by every engine that accepts one
    for T in (1, 10, 3.5, 123456.0, 0.25):
        dom = Domain(["a"], [3])
        meas = [(np.eye(3), np.array([5.0, 1.0, 2.0]), 1.0, ("a",))]
        info = {"given_total": T}
        ctx.case(("given", T))
        try:
            m = FactoredInference(dom, iters=2).estimate(list(meas), total=T)
            if m.total != T or not math.isclose(m.project(("a",)).values.sum(), T, rel_tol=1e-9):
                ctx.violation("supplied total %r not honoured: model.total=%r, mass=%r" % (T, m.total, m.project(("a",)).values.sum()), info, {"kind": "given"})
            eng = LocalInference(dom, iters=2)
            m2 = eng.estimate(list(meas), total=T)
            if m2.total != T:
                ctx.violation("LocalInference: supplied total %r not honoured: %r" % (T, m2.total), info, {"kind": "given"})
            pub = Dataset(pd.DataFrame({"a": [0, 1, 2, 2]}), dom)
            res = PublicInference(pub).estimate(list(meas), total=T)
            if not math.isclose(res.weights.sum(), T, rel_tol=1e-9):
                ctx.violation("PublicInference: supplied total %r not honoured: weights sum to %r" % (T, res.weights.sum()), info, {"kind": "given"})
        except Exception as ex:
            ctx.violation("estimation with a supplied total raised %r" % ex, info, {"kind": "crash"})
    # histories on one engine object (with and without warm start): the total of a call depends on that call only
    cfgh = ("CONSTANTS\n  Depth = %d\n  Givens = {77, 3}\n  Lists = {1, 2}\nSPECIFICATION Spec\nINVARIANT Emit\nINVARIANT HistoryFree\n"
            "CHECK_DEADLOCK FALSE\n" % (3 if thorough else 2))
    rh = ctx.tlc("est/TotalHistory.tla", cfgh, name="TotalHistory", workers=2, timeout=3600)
    dom = Domain(["a", "b"], [3, 2])
    lists = {1: [(np.eye(3), np.array([40.0, 30.0, 30.0]), 1.0, ("a",)), (np.ones((1, 2)), np.array([110.0]), 2.0, ("b",))],
             2: [(np.eye(2), np.array([200.0, 50.0]), 1.0, ("b",))]}
    ests = {1: expected_total([(np.eye(3, dtype=int).tolist(), ("in", [1, 1, 1], 1, [1, 1, 1], 1), Fr(1), [40, 30, 30]),
                               ([[1, 1]], ("in", [1], 1, [1, 1], 2), Fr(4), [110])]),
            2: Fr(250)}
    seenh = set()
    for e in rh.emits:
        key = json.dumps(e, sort_keys=True)
        if key in seenh:
            continue
        seenh.add(key)
        for kind in ("factored", "local"):
            info = {"engine": kind, "warm_start": e["warm"], "calls": [h["call"] for h in e["hist"]]}
            ctx.case(("hist", kind, key), nontrivial=len(e["hist"]) >= 2)
            try:
                eng = (FactoredInference(dom, iters=3, warm_start=e["warm"]) if kind == "factored"
                       else LocalInference(dom, iters=3, warm_start=e["warm"]))
                for i, h in enumerate(e["hist"]):
                    c = h["call"]
                    T = float(c["v"]) if c["k"] == "given" else None
                    m = eng.estimate(list(lists[c["l"]]), total=T)
                    want = float(c["v"]) if h["expect"]["src"] == "given" else float(ests[h["expect"]["v"]])
                    if not math.isclose(float(m.total), want, rel_tol=1e-8):
                        ctx.violation("call %d of the history: model.total = %r, the call's own arguments give %r" % (i + 1, float(m.total), want),
                                      info, {"kind": "history"})
                        break
            except Exception as ex:
                ctx.violation("estimate history raised %r" % ex, info, {"kind": "crash"})
    ctx.assumptions += ["mixture_inference.estimate_total cannot be imported (jax absent)",
                        "lsmr is observed, not modelled; matrices limited to the witness-certified families"]


def replay(ctx, path):
    print(json.dumps(json.load(open(path)), indent=1)[:3000])
    return 0
