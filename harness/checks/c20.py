"""C20 - selection and noise primitives are exactly calibrated.

spec/dp/Selection.tla: exact rational law b_i 2^k_i / sum on power-of-two quality lattices (ShiftInvariant, Normalised,
Symmetric, Monotone, Doubling); every enumerated vector is fed to every selection primitive with the sampler's p=
argument captured.
"""
import json, math, random
import numpy as np
from ..core import to_tla, MachineryError
from .. import rng as R
from ..pgm import Domain, Factor

LN2 = math.log(2.0)


class Capture:
    """Stands for a prng: records the arguments of every sampler call."""
    def __init__(self):
        self.calls = []

    def choice(self, a, size=None, replace=True, p=None):
        self.calls.append(("choice", a, size, replace, None if p is None else np.array(p, dtype=float)))
        return 0

    def draw(self, scale, size):
        # a recognisable "sample" reaching far into both tails (a draw is a draw: the helper must hand it on untouched)
        n = int(np.prod(size)) if size is not None else 1
        v = np.array([(-1) ** j * scale * (0.37 + 13.0 * j) for j in range(n)], dtype=float)
        self.last = v.reshape(size) if size is not None else float(v[0])
        return self.last

    def normal(self, loc=0.0, scale=1.0, size=None):
        self.calls.append(("normal", loc, scale, size))
        return self.draw(scale, size)

    def laplace(self, loc=0.0, scale=1.0, size=None):
        self.calls.append(("laplace", loc, scale, size))
        return self.draw(scale, size)


class StubModel:
    """Minimal model for worst_approximated: project(cl).datavector() is all zeros, domain.size(cl) is given."""
    def __init__(self, sizes):
        self.sizes = sizes
        self.domain = self

    def size(self, cl):
        return self.sizes[cl]

    def project(self, cl):
        n = self.sizes[cl]
        return type("F", (), {"datavector": lambda s: np.zeros(n)})()


def lattice(k, eps, sens, coef):
    return np.array(k, dtype=float) * LN2 * sens / (coef * eps)


def want_probs(e):
    return np.array([p[0] / p[1] for p in e["p"]], dtype=float)


_OBJ = {}


def objects(mech_mod, aim):
    """Mechanism objects are built once: their constructor runs the (slow) cdp_rho conversion."""
    if not _OBJ:
        _OBJ["M"] = mech_mod.Mechanism(1.0, 1e-6, False, prng=None)
        _OBJ["Mb"] = mech_mod.Mechanism(1.0, 1e-6, True, prng=None)
        _OBJ["A"] = aim.AIM(1.0, 1e-6)
    return _OBJ


def check_case(ctx, e, rng, mech_mod, mst, ada, mwem, aim):
    k, b = e["k"], e["b"]
    n = len(k)
    want = want_probs(e)
    uniform_b = len(set(b)) == 1
    eps = rng.choice([0.1, 1.0, 3.0])
    sens = rng.choice([1.0, 2.0, 0.5])
    shift = float(e["shift"]) * rng.choice([1.0, 1e3, -1e5])
    got = []

    def rec(label, fn, expect=None):
        cap = Capture()
        try:
            ret = fn(cap)
        except Exception as ex:
            got.append((label, "raised %r" % ex, None))
            return
        ps = [c[4] for c in cap.calls if c[0] == "choice" and c[4] is not None]
        if len(ps) != 1:
            got.append((label, "%d sampler calls with p=" % len(ps), None))
            return
        got.append((label, ps[0], ret))

    M = objects(mech_mod, aim)["M"]
    # mechanism.py (standard coefficient), array and dict forms, with base measure
    q = lattice(k, eps, sens, 0.5) + shift
    if uniform_b:
        def f1(cap):
            M.prng = cap
            return M.exponential_mechanism(q.copy(), eps, sens)
        rec("Mechanism.exponential_mechanism(array)", f1)
        def f1b(cap):
            arr = q.copy()
            M.prng = Capture()
            M.exponential_mechanism(arr, 0.1 * eps, sens)
            M.prng = cap
            return M.exponential_mechanism(arr, eps, sens)
        rec("Mechanism.exponential_mechanism(array), same array as an earlier call", f1b)
    keys = ["c%d" % i for i in range(n)]
    qd = {keys[i]: float(q[i]) for i in range(n)}
    order = list(range(n))
    rng.shuffle(order)
    bd = {keys[i]: float(b[i]) for i in order}            # base measure given in another key order
    def f2(cap):
        M.prng = cap
        r = M.exponential_mechanism(dict(qd), eps, sens, base_measure=dict(bd))
        return ("key", r)
    rec("Mechanism.exponential_mechanism(dict, base_measure)", f2)
    if uniform_b:
        def f3(cap):
            M.prng = cap
            return ("key", M.exponential_mechanism(dict(qd), eps, sens))
        rec("Mechanism.exponential_mechanism(dict)", f3)
        # mst.py and adaptive_grid.py, standard and monotonic
        for mono in (False, True):
            coef = 1.0 if mono else 0.5
            qq = lattice(k, eps, sens, coef) + (shift if abs(shift) < 1e4 else 0.0)
            rec("mst.exponential_mechanism(monotonic=%s)" % mono, lambda cap, qq=qq, mono=mono: mst.exponential_mechanism(qq.copy(), eps, sens, prng=cap, monotonic=mono))
            # the caller's quality vector is reused for a second selection (as MST's select does across rounds)
            def twice(cap, qq=qq, mono=mono, mod=mst):
                arr = qq.copy()
                mod.exponential_mechanism(arr, 0.1 * eps, sens, prng=Capture(), monotonic=mono)
                return mod.exponential_mechanism(arr, eps, sens, prng=cap, monotonic=mono)
            rec("mst.exponential_mechanism(monotonic=%s), same array as an earlier call" % mono, twice)
            rec("adaptive_grid.exponential_mechanism(monotonic=%s), same array as an earlier call" % mono, lambda cap, t=twice: t(cap, mod=ada))
            qq2 = lattice(k, eps, sens, coef) + shift
            rec("adaptive_grid.exponential_mechanism(monotonic=%s)" % mono, lambda cap, qq2=qq2, mono=mono: ada.exponential_mechanism(qq2.copy(), eps, sens, prng=cap, monotonic=mono))
        # mwem+pgm.worst_approximated: scores |x - xest|_1 - bias on the lattice
        for bounded in (False, True):
            for penalty in (False, True):
                s = 2.0 if bounded else 1.0
                qs = lattice(k, eps, s, 0.5)
                sizes = {keys[i]: 4 for i in range(n)}
                off = (4.0 if penalty else 0.0) - float(min(qs)) + 1.0      # make every |x|_1 positive
                answers = {keys[i]: np.array([qs[i] + off, 0, 0, 0.0]) for i in range(n)}
                def f4(cap, answers=answers, sizes=sizes, bounded=bounded, penalty=penalty):
                    ip = R.Interposer(0)
                    ip.choice = cap.choice
                    with ip.active():
                        return ("key", mwem.worst_approximated(answers, StubModel(sizes), list(keys), eps, penalty=penalty, bounded=bounded))
                rec("mwem.worst_approximated(bounded=%s, penalty=%s)" % (bounded, penalty), f4)
        # AIM.worst_approximated: weights w, sensitivity = max |w|
        w = rng.choice([1.0, 2.0])
        qs = lattice(k, eps, w, 0.5)
        sizes = {keys[i]: 2 for i in range(n)}
        sigma = 1.0
        bias = math.sqrt(2 / math.pi) * sigma * 2
        off = -float(min(qs)) / w + bias + 1.0
        answers = {keys[i]: np.array([qs[i] / w + off, 0.0]) for i in range(n)}
        A = objects(mech_mod, aim)["A"]
        def f5(cap):
            A.prng = cap
            return ("key", A.worst_approximated({kk: w for kk in keys}, answers, StubModel(sizes), eps, sigma))
        rec("AIM.worst_approximated", f5)
    info = {"k": k, "base": b, "eps": eps, "sensitivity": sens, "shift": shift}
    for label, p, ret in got:
        ctx.case((label, tuple(k), tuple(b), eps, sens, shift), nontrivial=n >= 2)
        if isinstance(p, str):
            ctx.violation("%s %s" % (label, p), dict(info, primitive=label), {"kind": "crash", "primitive": label.split("(")[0]})
            continue
        # the shifted qualities q + shift are themselves rounded to doubles: allow the induced error 4 ulp(shift) * eps / sens
        atol = 1e-12 + 1e-15 * (abs(shift) + 10.0) * eps / min(sens, 1.0) * 4
        if p.shape != want.shape or not np.all(np.isfinite(p)) or not np.allclose(p, want, rtol=0, atol=atol) or abs(p.sum() - 1) > 4 * atol:
            ctx.violation("%s draws with p = %s, the specified law gives %s" % (label, p.tolist(), want.tolist()), dict(info, primitive=label),
                          {"kind": "law", "primitive": label.split("(")[0]})
        elif isinstance(ret, tuple) and ret[1] != keys[0]:
            ctx.violation("%s returned %r for sampled index 0, expected key %r" % (label, ret[1], keys[0]), dict(info, primitive=label),
                          {"kind": "key", "primitive": label.split("(")[0]})


def extremes(ctx, mech_mod, mst, ada, mwem):
    """Huge magnitudes: dominated candidates get probability exactly 0, nothing is NaN, shifts change nothing."""
    M = _OBJ["M"]
    for q in ([1e6, 0.0, -1e6], [-1e6, -1e6 - 1.0], [5e5, 5e5, -3.0], [-4095.0, -4096.0, -8000.0], [1e6 + 1.0, 1e6]):
        for eps in (1.0, 0.1):
            qa = np.array(q)
            z = 0.5 * eps * (qa - qa.max())
            want = np.exp(z) / np.exp(z).sum()
            def all_prims(cap):
                out = {}
                M.prng = cap
                M.exponential_mechanism(qa.copy(), eps, 1.0); out["Mechanism.exponential_mechanism"] = cap.calls[-1][4]
                ada.exponential_mechanism(qa.copy(), eps, 1.0, prng=cap); out["adaptive_grid.exponential_mechanism"] = cap.calls[-1][4]
                mst.exponential_mechanism(qa.copy(), eps, 1.0, prng=cap); out["mst.exponential_mechanism"] = cap.calls[-1][4]
                keys = ["c%d" % i for i in range(len(q))]
                sizes = {kk: 4 for kk in keys}
                off = -min(q) + 1.0
                ans = {keys[i]: np.array([q[i] + off, 0, 0, 0.0]) for i in range(len(q))}
                ip = R.Interposer(0); ip.choice = cap.choice
                with ip.active():
                    mwem.worst_approximated(ans, StubModel(sizes), keys, eps, penalty=False); out["mwem.worst_approximated"] = cap.calls[-1][4]
                # all-negative scores (penalty larger than every error)
                ans2 = {keys[i]: np.array([q[i] - min(q) + 1.0, 0, 0, 0.0]) for i in range(len(q))}
                sizes2 = {kk: int(-min(q) + max(q) + 4096) if max(q) - min(q) < 1e5 else 4 for kk in keys}
                return out
            ctx.case(("extreme", tuple(q), eps))
            try:
                with np.errstate(all="ignore"):
                    res = all_prims(Capture())
            except Exception as ex:
                ctx.violation("selection primitive raised %r on qualities %s" % (ex, q), {"q": q, "eps": eps}, {"kind": "crash", "primitive": "extreme"})
                continue
            for label, p in res.items():
                # a primitive that scales before subtracting the maximum rounds scores of size |q| eps/2: allow 4 ulp of that
                if p is None or not np.all(np.isfinite(p)) or not np.allclose(p, want, rtol=0, atol=1e-12 + 1e-15 * max(abs(v) for v in q) * eps):
                    ctx.violation("%s on huge qualities %s: p = %s, expected %s" % (label, q, None if p is None else p.tolist(), want.tolist()),
                                  {"q": q, "eps": eps, "primitive": label}, {"kind": "law", "primitive": label})
    # all-negative penalised scores in mwem (large well-fitted cliques)
    for eps in (1.0, 0.1):
        keys = ["c0", "c1", "c2"]
        sizes = {kk: 4096 for kk in keys}
        ans = {"c0": np.array([1.0] + [0.0] * 4095), "c1": np.array([3.0] + [0.0] * 4095), "c2": np.array([2.0] + [0.0] * 4095)}
        z = 0.5 * eps * (np.array([1.0, 3.0, 2.0]) - 3.0)
        want = np.exp(z) / np.exp(z).sum()
        cap = Capture()
        ip = R.Interposer(0); ip.choice = cap.choice
        ctx.case(("mwem-negative", eps))
        try:
            with ip.active(), np.errstate(all="ignore"):
                mwem.worst_approximated(ans, StubModel(sizes), keys, eps, penalty=True)
            p = cap.calls[-1][4]
            if not np.all(np.isfinite(p)) or not np.allclose(p, want, rtol=0, atol=1e-12):
                ctx.violation("mwem.worst_approximated with all scores near -4095: p = %s, expected %s" % (p.tolist(), want.tolist()),
                              {"eps": eps}, {"kind": "law", "primitive": "mwem.worst_approximated"})
        except Exception as ex:
            ctx.violation("mwem.worst_approximated raised %r on all-negative scores" % ex, {"eps": eps}, {"kind": "crash", "primitive": "mwem.worst_approximated"})
    # eps = inf in adaptive_grid: one-hot on the maxima
    for q in ([1.0, 3.0, 2.0], [2.0, 2.0, 0.0]):
        cap = Capture()
        ctx.case(("inf", tuple(q)))
        try:
            with np.errstate(all="ignore"):
                ada.exponential_mechanism(np.array(q), np.inf, 1.0, prng=cap)
            p = cap.calls[-1][4]
            qa = np.array(q)
            want = (qa == qa.max()) / (qa == qa.max()).sum()
            if not np.all(np.isfinite(p)) or not np.allclose(p, want, atol=1e-12):
                ctx.violation("adaptive_grid.exponential_mechanism(eps=inf) on %s: p = %s, expected %s" % (q, p.tolist(), want.tolist()), {"q": q},
                              {"kind": "law", "primitive": "adaptive_grid.exponential_mechanism"})
        except Exception as ex:
            ctx.violation("adaptive_grid.exponential_mechanism(eps=inf) raised %r" % ex, {"q": q}, {"kind": "crash", "primitive": "adaptive_grid"})


def zero_base_measure(ctx, mech_mod):
    """A candidate whose base measure is exactly 0 is never drawn, however far its quality leads."""
    M = _OBJ["M"]
    for q, bm in (({"a": 4000.0, "b": 0.0, "c": 1.0}, {"a": 0.0, "b": 1.0, "c": 3.0}), ({"x": 1e6, "y": -5.0}, {"x": 0.0, "y": 2.0}),
                  ({"a": 10.0, "b": 10.0, "c": 9.0}, {"c": 0.0, "a": 1.0, "b": 1.0})):
        for eps in (1.0, 0.05):
            ctx.case(("zero_base", json.dumps(q), eps), nontrivial=True)
            cap = Capture()
            M.prng = cap
            try:
                with np.errstate(all="ignore"):
                    M.exponential_mechanism(dict(q), eps, 1.0, base_measure=dict(bm))
                p = cap.calls[-1][4]
            except Exception as ex:
                ctx.violation("exponential_mechanism with a zero base measure raised %r" % ex, {"q": q, "base_measure": bm, "eps": eps}, {"kind": "extreme"})
                continue
            keys = list(q.keys())
            z = np.array([0.5 * eps * q[k_] for k_ in keys])
            w = np.array([bm[k_] for k_ in keys])
            live = w > 0
            zz = z - z[live].max()
            want = np.where(live, w * np.exp(np.where(live, zz, -np.inf)), 0.0)
            want = want / want.sum()
            if p is None or p.shape != want.shape or not np.all(np.isfinite(p)) or not np.allclose(p, want, rtol=0, atol=1e-12) or np.any(p[~live] != 0):
                ctx.violation("Mechanism.exponential_mechanism(dict, base_measure with an exact 0) draws with p = %s, the specified law gives %s" % (
                    None if p is None else p.tolist(), want.tolist()), {"q": q, "base_measure": bm, "eps": eps}, {"kind": "extreme"})


def mwem_scales(ctx, rng):
    """The scale MWEM+PGM hands to its sampler: sensitivity / (alpha * eps per round) for Laplace noise, with the L1
    sensitivity of a marginal doubled under bounded (replace-one) adjacency."""
    from .. import mech as MM
    for bounded in (False, True):
        for alpha, rounds, eps in ((0.9, 1, 1.0), (0.5, 2, 3.0)):
            p = {"epsilon": eps, "delta": 0.0, "noise": "laplace", "bounded": bounded, "rounds": rounds, "alpha": alpha}
            ip = R.Interposer(rng.randrange(10 ** 6))
            out, err = MM.run_mechanism("MWEM", p, [[0, 1], [1, 0], [1, 1]], ["a", "b"], [2, 2], ip)
            ctx.case(("mwem_scale", bounded, alpha, rounds, eps), nontrivial=True)
            if err:
                ctx.violation("MWEM+PGM %s" % err, p, {"kind": "crash"})
                continue
            want = (2.0 if bounded else 1.0) / (alpha * eps / rounds)
            got = [e_["scale"] for e_ in ip.events if e_["e"] == "Release"]
            if not got or any(not math.isclose(g_, want, rel_tol=1e-12) or e_["kind"] != "laplace" for g_, e_ in zip(got, [e_ for e_ in ip.events if e_["e"] == "Release"])):
                ctx.violation("noise helpers: MWEM+PGM (laplace, bounded=%s) draws its noise with scale %s, sensitivity/epsilon gives %r" % (bounded, got, want),
                              p, {"kind": "noise"})


def noise_helpers(ctx, mech_mod, rng):
    for bounded in (False, True):
        for _ in range(20):
            s, eps, delta = rng.choice([0.5, 1.0, 3.0, 17.0]), rng.choice([0.1, 1.0, 4.0]), rng.choice([1e-9, 1e-3])
            cap = Capture()
            M = _OBJ["Mb"] if bounded else _OBJ["M"]
            M.prng = cap
            ctx.case(("noise", bounded, s, eps, delta))
            bad = []
            want_b = (2.0 if bounded else 1.0) * s / eps
            if not math.isclose(M.laplace_noise_scale(s, eps), want_b, rel_tol=1e-12):
                bad.append("laplace_noise_scale(%r, %r) = %r, expected %r" % (s, eps, M.laplace_noise_scale(s, eps), want_b))
            g1, g2 = M.gaussian_noise_scale(s, eps, delta), M.gaussian_noise_scale(2 * s, eps, delta)
            unb = _OBJ["M"].gaussian_noise_scale(s, eps, delta)
            if not math.isclose(g2, 2 * g1, rel_tol=1e-12):
                bad.append("gaussian_noise_scale is not linear in the sensitivity (%r vs %r)" % (g2, 2 * g1))
            if not math.isclose(g1, (2.0 if bounded else 1.0) * unb, rel_tol=1e-12):
                bad.append("gaussian_noise_scale under bounded=%s is %r, unbounded %r" % (bounded, g1, unb))
            scale, size = rng.choice([0.3, 2.0, 41.5]), rng.choice([1, 4, 7])
            out = M.gaussian_noise(scale, size)
            if cap.calls[-1] != ("normal", 0, scale, size):
                bad.append("gaussian_noise(%r, %r) called the sampler with %r" % (scale, size, cap.calls[-1]))
            elif not np.array_equal(np.asarray(out), np.asarray(cap.last)):
                bad.append("gaussian_noise(%r, %r) returns %s, the sampler drew %s" % (scale, size, np.asarray(out).tolist(), np.asarray(cap.last).tolist()))
            out = M.laplace_noise(scale, size)
            if cap.calls[-1] != ("laplace", 0, scale, size):
                bad.append("laplace_noise(%r, %r) called the sampler with %r" % (scale, size, cap.calls[-1]))
            elif not np.array_equal(np.asarray(out), np.asarray(cap.last)):
                bad.append("laplace_noise(%r, %r) returns %s, the sampler drew %s" % (scale, size, np.asarray(out).tolist(), np.asarray(cap.last).tolist()))
            # the adjacency notion in force is the object's CURRENT attribute (subclasses set it after the base constructor)
            M.bounded = not bounded
            want_sw = (2.0 if not bounded else 1.0) * s / eps
            g_sw = M.gaussian_noise_scale(s, eps, delta)
            if not math.isclose(M.laplace_noise_scale(s, eps), want_sw, rel_tol=1e-12):
                bad.append("after setting bounded=%s on the object, laplace_noise_scale(%r, %r) = %r, expected %r" % (not bounded, s, eps, M.laplace_noise_scale(s, eps), want_sw))
            if not math.isclose(g_sw, (2.0 if not bounded else 1.0) * unb, rel_tol=1e-12):
                bad.append("after setting bounded=%s on the object, gaussian_noise_scale = %r, unbounded value %r" % (not bounded, g_sw, unb))
            M.bounded = bounded
            if bad:
                ctx.violation("noise helpers: " + "; ".join(bad), {"bounded": bounded, "s": s, "eps": eps, "delta": delta}, {"kind": "noise"})


PF_CFG = ("CONSTANTS\n  MaxN = %d\n  QMax = 2\n  Coef = %d\nSPECIFICATION Spec\nINVARIANT AlwaysReturns\nINVARIANT LawNormalised\n"
          "INVARIANT PrivacyBound\nINVARIANT NoWorseThanEM\nINVARIANT PathBelowLaw\nINVARIANT Emit\nCHECK_DEADLOCK FALSE\n")
GEM_CFG = ("CONSTANTS\n  MaxN = %d\n  QMax = 3\n  DMax = 2\n  Ts <- MCTs\nSPECIFICATION Spec\nINVARIANT KeepsUndominated\n"
           "INVARIANT ParetoSufficient\nINVARIANT NonPositive\nINVARIANT SensitivityOne\nCHECK_DEADLOCK FALSE\n")


def beyond_c20(ctx, mech_mod, rng, thorough):
    """permute_and_flip has, by design, another law than the one C20 states: it is specified in PermuteFlip.tla and bound to the
    code in both directions, and a disagreement is reported as a deviation from that model, never as a violation of C20.
    The generalised exponential mechanism IS the exponential mechanism (sensitivity 1) on the scores of GenEM.tla, so its sampling
    law falls under C20: a disagreement is a violation."""
    import os
    from fractions import Fraction
    n = 4 if thorough else 3
    r = ctx.tlc("dp/PermuteFlip.tla", PF_CFG % (n, 1), name="PermuteFlip", workers=8, timeout=7200)
    if r.violated:
        ctx.deviation("design-level: %s fails in PermuteFlip.tla" % r.violated, {"tlc": r.trace_text()})
    rn = ctx.tlc("dp/PermuteFlip.tla", PF_CFG % (2, 2), name="PermuteFlip_negative_control", workers=2, expect_violation=True)
    if rn.violated != "PrivacyBound":
        raise MachineryError("negative control: permute-and-flip without the factor 1/2 must violate PrivacyBound (got %r)" % (rn.violated,))
    M = mech_mod.Mechanism(1.0, 0.0, False)
    emits = r.emits
    rng.shuffle(emits)
    stats = {"pf_paths": 0, "pf_bad": 0, "gem_cases": 0, "gem_bad": 0}
    orig_perm, orig_rand = np.random.permutation, np.random.rand
    for e in emits[: (6000 if thorough else 600)]:
        q, path, ret = e["q"], e["path"], e["ret"]
        k = e["k"]
        eps, sens = rng.choice([0.1, 1.0, 3.0]), rng.choice([1.0, 2.0, 0.5])
        shift = rng.choice([0.0, 7.0, -1e5])
        qual = np.array(q, dtype=float) * (2 * sens * LN2 / eps) + shift
        visited = [h["i"] - 1 for h in path]
        perm = visited + [j for j in range(len(q)) if j not in visited]
        us = []
        for h in path:
            pk = 2.0 ** k[h["i"] - 1]
            if h["acc"]:
                us.append(pk * (1 - 1e-9) if pk < 1 else 1.0 - 2.0 ** -53)
            else:
                us.append(pk * (1 + 1e-9))
        feed = list(us)
        calls = {"perm": 0}
        def fake_perm(m, perm=perm, calls=calls):
            calls["perm"] += 1
            return np.array(perm[:m] if not isinstance(m, np.ndarray) else perm)
        def fake_rand(*a, feed=feed):
            if not feed:
                raise IndexError("more coins than the model's path")
            return feed.pop(0)
        np.random.permutation, np.random.rand = fake_perm, fake_rand
        try:
            got = M.permute_and_flip(qual.copy(), eps, sens)
            bad = None
            if got is None or int(got) != ret - 1:
                bad = "returned %r, PermuteFlip.tla returns %d" % (got, ret - 1)
            elif feed:
                bad = "used %d coins, the model's path has %d" % (len(us) - len(feed), len(us))
        except Exception as ex:
            bad = "raised %r" % ex
        finally:
            np.random.permutation, np.random.rand = orig_perm, orig_rand
        stats["pf_paths"] += 1
        ctx.case(json.dumps(["permute_and_flip", q, path, eps, sens, shift]), nontrivial=len(q) >= 2)
        if bad:
            stats["pf_bad"] += 1
            ctx.deviation("permute_and_flip is not a behaviour of PermuteFlip.tla: " + bad,
                          {"q": q, "path": path, "eps": eps, "sensitivity": sens, "shift": shift})
    # ---- generalised exponential mechanism
    mc = os.path.join(ctx.work, "MC_GenEM.tla")
    with open(mc, "w") as f:
        f.write("---- MODULE MC_GenEM ----\nEXTENDS GenEM\nMCTs == {0, 1, 2}\n====\n")
    rg = ctx.tlc(mc, GEM_CFG % (4 if thorough else 3), name="GenEM", workers=8, extra_modules=("dp",), timeout=7200)
    if rg.violated:
        ctx.deviation("design-level: %s fails in GenEM.tla" % rg.violated, {"tlc": rg.trace_text()})
    if not any(len(e["eff"]) < len(e["q"]) for e in rg.emits):
        raise MachineryError("GenEM.tla never dropped a dominated candidate (ParetoSufficient would be vacuous)")
    ge = rg.emits
    rng.shuffle(ge)
    for e in ge[: (4000 if thorough else 400)]:
        q, d, t = np.array(e["q"], dtype=float), np.array(e["d"], dtype=float), float(e["t"])
        want = np.array([Fraction(a, b) for a, b in e["s"]], dtype=float)
        eps = rng.choice([0.5, 1.0, 4.0])
        bad = []
        try:
            got = np.asarray(mech_mod.generalized_em_scores(q.copy(), d.copy(), t), dtype=float)
            if got.shape != want.shape or not np.allclose(got, want, rtol=1e-12, atol=1e-12):
                bad.append("generalized_em_scores = %s, GenEM.tla %s" % (got.tolist(), want.tolist()))
            eff = set(int(x) + 1 for x in mech_mod.pareto_efficient(np.vstack([-q, d]).T))
            if eff != set(e["eff"]):
                bad.append("pareto_efficient keeps %s, the model's loop keeps %s" % (sorted(eff), sorted(e["eff"])))
            z = 0.5 * eps * want
            pw = np.exp(z - z.max()); pw /= pw.sum()
            cap = Capture()
            Mc = mech_mod.Mechanism(1.0, 0.0, False, prng=cap)
            Mc.generalized_exponential_mechanism(q.copy(), d.copy(), eps, t=t)
            keys = ["c%d" % j for j in range(len(q))]
            Mc.generalized_exponential_mechanism({k_: float(v) for k_, v in zip(keys, q)}, {k_: float(v) for k_, v in zip(keys, d)}, eps, t=t)
            ps = [c[4] for c in cap.calls if c[0] == "choice" and c[4] is not None]
            if len(ps) != 2 or any(p_.shape != pw.shape or not np.allclose(p_, pw, rtol=0, atol=1e-12) for p_ in ps):
                bad.append("generalized_exponential_mechanism draws with p = %s, exponential mechanism on the model's scores gives %s" % (
                    [p_.tolist() for p_ in ps], pw.tolist()))
        except Exception as ex:
            bad.append("raised %r" % ex)
        stats["gem_cases"] += 1
        ctx.case(json.dumps(["gem", e["q"], e["d"], e["t"], eps]), nontrivial=len(q) >= 2)
        if bad:
            stats["gem_bad"] += 1
            ctx.violation("generalised exponential mechanism differs from GenEM.tla (candidate i must be drawn with probability proportional to "
                          "exp(eps * s_i / 2) for the published scores s at the caller's t): " + "; ".join(bad[:2]),
                          {"q": e["q"], "d": e["d"], "t": e["t"], "eps": eps}, {"kind": "gem"})
    ctx.extra["beyond_c20"] = stats


def run(ctx, canary=False):
    rng = random.Random(ctx.seed)
    thorough = ctx.tier == "thorough"
    ctx.rule = ("TLC enumerates every quality vector of length 1..%d over the exponent lattice x base measures {1,3} x shifts and checks "
                "ShiftInvariant/Normalised/Symmetric/Monotone/Doubling on the exact rational law; each vector is fed (as qualities "
                "k*ln2*s/(coef*eps) plus a shift of up to 5e5) to Mechanism.exponential_mechanism (array, dict, dict+base_measure in another "
                "key order), mst / adaptive_grid exponential_mechanism (standard, monotonic), mwem worst_approximated (bounded, penalty) "
                "and AIM.worst_approximated, capturing the sampler's p= argument (1e-12); plus extreme magnitudes, eps=inf and the noise "
                "helpers. non-trivial = distinct (primitive, vector, eps, sensitivity, shift) with >= 2 candidates" % (4 if thorough else 3))
    R.install_shims()
    mech_mod = R.load_mechanism("mechanism")
    mst, ada, mwem, aim = R.load_mechanism("mst"), R.load_mechanism("adaptive_grid"), R.load_mechanism("mwem+pgm"), R.load_mechanism("aim")
    cfg = ("CONSTANTS\n  MaxN = %d\n  KRange <- %s\n  Bases = {1, 3}\nSPECIFICATION Spec\nINVARIANT ShiftInvariant\nINVARIANT Normalised\n"
           "INVARIANT Symmetric\nINVARIANT Monotone\nINVARIANT Doubling\nCHECK_DEADLOCK FALSE\n" % (4 if thorough else 3, "MCKwide" if thorough else "MCK"))
    r = ctx.tlc("dp/MC_Sel.tla", cfg, name="Selection", workers=8, timeout=7200)
    if r.violated:
        ctx.violation("design-level: %s violated in Selection.tla" % r.violated, {"tlc": r.trace_text()}, {"kind": "design"})
    emits = r.emits
    rng.shuffle(emits)
    import contextlib, io
    with contextlib.redirect_stdout(io.StringIO()):
        for e in emits[: (12000 if thorough else 900)]:
            check_case(ctx, e, rng, mech_mod, mst, ada, mwem, aim)
        objects(mech_mod, aim)
        extremes(ctx, mech_mod, mst, ada, mwem)
        noise_helpers(ctx, mech_mod, rng)
        zero_base_measure(ctx, mech_mod)
        mwem_scales(ctx, rng)
        beyond_c20(ctx, mech_mod, rng, thorough)
    if emits:
        ctx.sample({"lattice case": emits[0]})
    ctx.assumptions += ["autodp's calibrator is replaced by a stand-in: only linearity in the sensitivity and the doubling under bounded "
                        "adjacency are checked for gaussian_noise_scale", "permute_and_flip / generalized_exponential_mechanism are outside C20's statement: modelled (PermuteFlip.tla, GenEM.tla) and replayed, disagreements are reported as model deviations",
                        "numpy's generators are trusted"]


def replay(ctx, path):
    print(json.dumps(json.load(open(path)), indent=1)[:3000])
    return 0
