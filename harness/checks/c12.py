"""C12 - every constructed junction tree is valid, with a valid message schedule.

spec/jt/JunctionTree.tla (model, exhaustive over labelled graphs x orders x trees x schedules)
spec/jt/JTTrace.tla      (code -> spec)
"""
import itertools, json, random
import numpy as np
from ..core import to_tla
from .. import trace as T
from ..pgm import Domain, JunctionTree, jt_events, fs, LETTERS

INVS = ["Covers", "AllAttrs", "Antichain", "IsTree", "RunningIntersection", "HCAgree", "Progress", "SentOnce"]


def model_cfg(V, clsets, sizefns, mode, emit):
    return ("CONSTANTS\n  V = %s\n  ClSets <- %s\n  SizeFns <- %s\n  Mode = \"%s\"\n  EmitTrees = %s\n"
            "SPECIFICATION Spec\n%s\nPROPERTY DepRespect\nCHECK_DEADLOCK FALSE\n" % (
                to_tla(set(V)), clsets, sizefns, mode, "TRUE" if emit else "FALSE",
                "\n".join("INVARIANT " + i for i in INVS)))


TRACE_CFG = ("CONSTANTS\n  V = %s\n  ClSets = {}\n  SizeFns = {}\n  Mode = \"any\"\n  EmitTrees = FALSE\n  Strict = TRUE\n"
             "SPECIFICATION TraceSpec\nCONSTRAINT Marker\nPOSTCONDITION Post\nCHECK_DEADLOCK FALSE\n")
TRACE_CFG_LENIENT = TRACE_CFG.replace("Strict = TRUE", "Strict = FALSE")


def spell(cliques, rng, extra=True):
    """Turn a set-of-sets clique collection into a list of tuples: permuted attribute order,
    shuffled, optionally with duplicates and nested sub-cliques (same covered pairs)."""
    out = []
    for c in cliques:
        c = list(c)
        rng.shuffle(c)
        out.append(tuple(c))
    if extra and out:
        if rng.random() < 0.5:
            out.append(tuple(reversed(rng.choice(out))))          # duplicate in another order
        if rng.random() < 0.5:
            c = rng.choice(out)
            if len(c) > 1:
                out.append(tuple(c[:-1]))                          # nested sub-clique
    rng.shuffle(out)
    return out


def jt_valid(jt, dom_attrs, cliques):
    """The property's own words, evaluated directly on the object (independent of the model)."""
    import networkx as nx
    bad = []
    nodes = [fs(c) for c in jt.maximal_cliques()]
    if len(set(nodes)) != len(nodes):
        bad.append("a node is listed twice")
    for c in cliques:
        if not any(set(c) <= n for n in nodes):
            bad.append("input clique %s is contained in no node" % (c,))
    if set().union(*nodes) != set(dom_attrs) if nodes else bool(dom_attrs):
        bad.append("attributes %s appear in no node" % sorted(set(dom_attrs) - (set().union(*nodes) if nodes else set())))
    if any(a < b for a in nodes for b in nodes):
        bad.append("a node contains another node")
    g = nx.Graph()
    g.add_nodes_from(nodes)
    g.add_edges_from((fs(a), fs(b)) for a, b in jt.tree.edges())
    if set(g.nodes) != set(nodes) or (nodes and not nx.is_tree(g)):
        bad.append("the tree is not a spanning tree of the nodes")
    else:
        for a in dom_attrs:
            sub = [n for n in nodes if a in n]
            if sub and not nx.is_connected(g.subgraph(sub)):
                bad.append("nodes containing %r are not connected" % a)
    return bad


def check_jt(ctx, jt, dom_attrs, sizes, cliques_sets, order, maxcl, trees, info):
    """Property-level problems are violations; departures from the model that leave the tree valid are deviations."""
    bad = jt_valid(jt, dom_attrs, info["cliques"])
    dev = []
    got = [fs(c) for c in jt.maximal_cliques()]
    if set(got) != set(maxcl):
        dev.append("maximal_cliques %s != spec %s for the reported order" % (sorted(map(sorted, got)), sorted(map(sorted, maxcl))))
    edges = fs(fs((fs(a), fs(b))) for a, b in jt.tree.edges())
    if trees is not None and edges not in trees:
        dev.append("tree is not one of the spec's %d maximum-weight trees" % len(trees))
    nb = jt.neighbors()
    adj = {}
    for e in edges:
        a, b = tuple(e)
        adj.setdefault(a, set()).add(b)
        adj.setdefault(b, set()).add(a)
    if {fs(k): {fs(x) for x in v} for k, v in nb.items()} != {c: adj.get(c, set()) for c in set(got)}:
        bad.append("neighbors() differs from the tree's adjacency")
    sep = jt.separator_axes()
    for (i, j), ax in sep.items():
        if len(set(ax)) != len(ax) or set(ax) != set(i) & set(j):
            bad.append("separator_axes[%s,%s]=%s is not the intersection" % (i, j, ax))
    if order is not None and list(jt.elimination_order) != list(order):
        dev.append("elimination_order %s != given %s" % (jt.elimination_order, order))
    for c in jt.maximal_cliques():
        if tuple(c) != tuple(a for a in dom_attrs if a in c):
            dev.append("clique %s not in canonical domain order" % (c,))
            break
    if bad:
        ctx.violation("not a valid junction tree: " + "; ".join(bad[:3]), info, {"kind": "structure"})
    elif dev:
        ctx.deviation("JunctionTree differs from JunctionTree.tla: " + "; ".join(dev[:2]), info)


def int_mode_job(job):
    """Randomised restarts (order=int) on cycle-plus-pendant models of 6-8 attributes with many cost ties: validity only."""
    seed0, count = job
    import random as _r
    rng = _r.Random(seed0)
    out = []
    for t in range(count):
        n = rng.choice([6, 7, 8])
        attrs = list(LETTERS[:n])
        sizes = [rng.choice([2, 2, 3]) for _ in attrs]
        k = rng.choice([5, 6])
        cyc = rng.sample(attrs, k)
        cl = [(cyc[i], cyc[(i + 1) % k]) for i in range(k)]
        for a in attrs:
            if a not in cyc:
                cl.append((a, rng.choice(cyc)))
        restarts = rng.choice([5, 20])
        npseed = seed0 * 100003 + t
        np.random.seed(npseed % (2 ** 32))
        try:
            jt = JunctionTree(Domain(attrs, sizes), cl, restarts)
            bad = jt_valid(jt, attrs, cl)
        except Exception as ex:
            bad = ["raised %r" % ex]
        if bad:
            out.append({"domain": attrs, "sizes": sizes, "cliques": cl, "order_mode": "int", "restarts": restarts, "numpy_seed": npseed % (2 ** 32),
                        "elimination_order": list(getattr(jt, "elimination_order", [])) if "jt" in dir() else None, "bad": bad})
    return count, out


def rand_cliques(rng, n, k, maxlen):
    V = LETTERS[:n]
    return [tuple(rng.sample(V, rng.randint(1, min(maxlen, n)))) for _ in range(k)]


def run(ctx, canary=False):
    rng = random.Random(ctx.seed)
    thorough = ctx.tier == "thorough"
    ctx.rule = ("TLC enumerates every labelled graph on <=4 attributes x every elimination order x every "
                "max-weight tree x every message schedule; each (structure, order) is replayed on JunctionTree with "
                "permuted/duplicated/nested clique spellings and permuted domain order; recorded trees+schedules of the "
                "code's own modes (None/int/permutation) are validated by JTTrace.tla. non-trivial = distinct "
                "(clique spelling, domain order, order mode) with >= 2 maximal cliques")
    groups = {}
    # ---- design level + generator
    sizes_n = [2, 3, 4]     # (n = 5 exhaustively in TLC took over an hour on 8 workers: all 1024 labelled graphs on 5 attributes are
                            # instead built by the implementation under sampled orders and validated by the trace spec, below)
    for n in sizes_n:
        V = list(LETTERS[:n])
        r = ctx.tlc("jt/MC_JT.tla", model_cfg(V, "AllGraphs", "Sz2", "any", True), name="JT_any_%d" % n,
                    workers=8 if n >= 4 else 2, coverage=(n == 4), timeout=7200)
        if r.violated:
            ctx.violation("design-level: invariant %s violated in JunctionTree.tla (n=%d)" % (r.violated, n),
                          {"tlc": r.trace_text()}, {"kind": "design"})
            continue
        for e in r.emits:
            key = (n, fs(fs(c) for c in e["cliques"]), tuple(e["elim"]))
            g = groups.setdefault(key, {"maxcl": fs(fs(c) for c in e["maxcl"]), "trees": set()})
            g["trees"].add(fs(fs((fs(a), fs(b))) for a, b in e["tree"]))
    # greedy mode (sizes matter) and hyper-clique catalogue
    for n, clsets, szf, mode in ([(3, "AllGraphs", "SzMixed", "greedy"), (4, "HyperCatalogue", "Sz2", "any")]
                                 + ([(4, "AllGraphs", "SzMixed", "greedy")] if thorough else [])):
        V = list(LETTERS[:n])
        r = ctx.tlc("jt/MC_JT.tla", model_cfg(V, clsets, szf, mode, clsets == "HyperCatalogue"),
                    name="JT_%s_%s_%d" % (mode, clsets, n), workers=8, timeout=7200)
        if r.violated:
            ctx.violation("design-level: invariant %s violated (%s %s n=%d)" % (r.violated, mode, clsets, n),
                          {"tlc": r.trace_text()}, {"kind": "design"})
        for e in r.emits:
            key = (n, fs(fs(c) for c in e["cliques"]), tuple(e["elim"]))
            g = groups.setdefault(key, {"maxcl": fs(fs(c) for c in e["maxcl"]), "trees": set()})
            g["trees"].add(fs(fs((fs(a), fs(b))) for a, b in e["tree"]))
    ctx.extra["spec_structure_order_pairs"] = len(groups)

    # ---- spec -> code replay
    traces = {}
    keys = sorted(groups, key=lambda k: (k[0], sorted(map(sorted, k[1])), k[2]))
    if not thorough:
        keep = [k for k in keys if k[0] <= 3] + rng.sample([k for k in keys if k[0] == 4], 600)
        keys = keep
    elif len(keys) > 60000:
        keys = [k for k in keys if k[0] <= 4] + rng.sample([k for k in keys if k[0] == 5], 40000)
    for key in keys:
        n, cls, order = key
        g = groups[key]
        V = list(LETTERS[:n])
        for variant in range(2):
            dom_attrs = list(V)
            if variant:
                rng.shuffle(dom_attrs)
            sizes = {a: rng.choice([1, 2, 3]) for a in V}
            dom = Domain(dom_attrs, [sizes[a] for a in dom_attrs])
            cliques = spell(cls, rng, extra=bool(variant))
            info = {"domain": dom_attrs, "sizes": sizes, "cliques": cliques, "order": list(order)}
            try:
                jt = JunctionTree(dom, cliques, list(order))
            except Exception as ex:
                ctx.violation("JunctionTree raised %r" % ex, info, {"kind": "crash"})
                continue
            ctx.case((tuple(dom_attrs), tuple(cliques), order), nontrivial=len(g["maxcl"]) >= 2)
            try:
                evs = jt_events(jt)
            except Exception as ex:
                ctx.violation("mp_order() raised %r" % ex, info, {"kind": "crash"})
                continue
            check_jt(ctx, jt, dom_attrs, sizes, cls, order, g["maxcl"], g["trees"], info)
            if variant == 0 and len(traces.setdefault(n, [])) < (3000 if thorough else 300):
                traces[n].append({"sz": sizes, "cliques": [list(c) for c in cliques], "mode": "any",
                                  "events": evs, "info": info})
    ctx.sample({"spec->code": {"cliques": [sorted(c) for c in keys[-1][1]], "order": keys[-1][2],
                               "maxcl": [sorted(c) for c in groups[keys[-1]]["maxcl"]],
                               "admissible_trees": len(groups[keys[-1]]["trees"])}})

    # ---- code -> spec: the code's own order modes on enumerated and random larger structures
    np.random.seed(ctx.seed)
    structs = []
    seen = set()
    for key in keys:
        if (key[0], key[1]) not in seen:
            seen.add((key[0], key[1]))
            structs.append((key[0], spell(key[1], rng)))
    nrand = 1500 if thorough else 150
    for _ in range(nrand):
        n = rng.choice([5, 6, 6, 7, 8])
        structs.append((n, rand_cliques(rng, n, rng.randint(1, n + 1), 3 if n >= 7 else 4)))
    # chordless cycles, grids and wheels: the structures on which a wrong triangulation first shows (fill-in of fill-in)
    hard = {"cycle5": (5, [(0, 1), (1, 2), (2, 3), (3, 4), (4, 0)]), "cycle6": (6, [(0, 1), (1, 2), (2, 3), (3, 4), (4, 5), (5, 0)]),
            "grid2x3": (6, [(0, 1), (1, 2), (3, 4), (4, 5), (0, 3), (1, 4), (2, 5)]),
            "cycle7": (7, [(i, (i + 1) % 7) for i in range(7)]),
            # a chordless cycle next to attributes that occur in no clique (fewer edges than nodes, yet not a forest)
            "cycle4+isolated": (5, [(0, 1), (0, 2), (1, 3), (2, 3)]), "cycle5+2isolated": (7, [(0, 1), (1, 2), (2, 3), (3, 4), (4, 0)]),
            "cycle4+edge+isolated": (8, [(0, 1), (0, 2), (1, 3), (2, 3), (4, 5)]), "prism": (6, [(0, 1), (1, 2), (2, 0), (3, 4), (4, 5), (5, 3), (0, 3), (1, 4), (2, 5)])}
    hard_orders = []
    for name, (n, edges) in hard.items():
        V = list(LETTERS[:n])
        cl = [(V[a], V[b]) for a, b in edges]
        perms = [list(V)] + [rng.sample(V, n) for _ in range(60 if thorough else 12)]
        for order in perms:
            hard_orders.append((n, cl, order))
        structs.append((n, cl))
    if thorough:
        V5 = list(LETTERS[:5])
        pairs5 = list(itertools.combinations(range(5), 2))
        for mask in range(1, 2 ** len(pairs5)):
            cl5 = [(V5[a], V5[b]) for k_, (a, b) in enumerate(pairs5) if mask >> k_ & 1]
            for order in [list(V5)] + [rng.sample(V5, 5) for _ in range(3)]:
                hard_orders.append((5, cl5, order))
    for n, cl, order in hard_orders:
        V = list(LETTERS[:n])
        sizes = {a: 2 for a in V}
        dom = Domain(V, [2] * n)
        info = {"domain": V, "sizes": sizes, "cliques": cl, "order": order}
        try:
            jt = JunctionTree(dom, cl, list(order))
            evs = jt_events(jt)
        except Exception as ex:
            ctx.violation("JunctionTree raised %r" % ex, info, {"kind": "crash"})
            continue
        ctx.case((tuple(V), tuple(cl), tuple(order)), nontrivial=True)
        bad = jt_valid(jt, V, cl)
        if bad:
            ctx.violation("not a valid junction tree: " + "; ".join(bad[:3]), info, {"kind": "structure"})
        if len(traces.setdefault(n, [])) < 6000:
            traces[n].append({"sz": sizes, "cliques": [list(c) for c in cl], "mode": "any", "events": evs, "info": info})
    if thorough:  # all graphs on 6 attributes up to isomorphism, through the code's greedy order
        for g in graphs6():
            structs.append((6, [tuple(e) for e in g] or []))
    for n, cliques in structs:
        V = list(LETTERS[:n])
        dom_attrs = list(V)
        if rng.random() < 0.5:
            rng.shuffle(dom_attrs)
        sizes = {a: rng.choice([1, 2, 3, 4]) for a in V}
        dom = Domain(dom_attrs, [sizes[a] for a in dom_attrs])
        for mode in ("none", "int"):
            info = {"domain": dom_attrs, "sizes": sizes, "cliques": cliques, "order_mode": mode}
            try:
                jt = JunctionTree(dom, cliques, None if mode == "none" else 3)
            except Exception as ex:
                ctx.violation("JunctionTree raised %r" % ex, info, {"kind": "crash"})
                continue
            ctx.case((tuple(dom_attrs), tuple(cliques), mode, tuple(jt.elimination_order)),
                     nontrivial=len(jt.maximal_cliques()) >= 2)
            try:
                evs = jt_events(jt)
            except Exception as ex:
                ctx.violation("mp_order() raised %r" % ex, info, {"kind": "crash"})
                continue
            check_jt(ctx, jt, dom_attrs, sizes, None, None, [fs(c) for c in jt.maximal_cliques()], None, info)
            traces.setdefault(n, []).append({"sz": sizes, "cliques": [list(c) for c in cliques],
                                             "mode": "greedy" if mode == "none" else "any",
                                             "events": evs, "info": info})
    # int mode at scale: rare ties between a partial and a complete order only show on thousands of constructions
    import multiprocessing
    per = 6000 if thorough else 1500
    with multiprocessing.get_context("fork").Pool(16) as pool:
        outs = pool.map(int_mode_job, [(ctx.seed * 1000 + j, per) for j in range(16)], chunksize=1)
    ctx.extra["int_mode_constructions"] = sum(c for c, _ in outs)
    for c, found in outs:
        for f in found:
            ctx.case(("intmode", json.dumps(f, sort_keys=True)), nontrivial=True)
            ctx.violation("not a valid junction tree (order=int): " + "; ".join(f["bad"][:3]), f, {"kind": "structure"})
    if canary:
        traces = canaries(traces)
    nval = 0
    for n, trs in sorted(traces.items()):
        V = set(LETTERS[:n])
        for t in trs:
            t["cliques"] = [c for c in t["cliques"]]
        res = T.validate2(ctx, "jt/JTTrace.tla", TRACE_CFG % to_tla(V), TRACE_CFG_LENIENT % to_tla(V), trs, name="JTTrace_%d" % n,
                          chunk=500, timeout=3600)
        for t, (ok, okl, reached, reachedl, ln) in zip(trs, res):
            nval += 1
            if t.get("canary"):
                if ok:
                    raise_machinery("canary trace accepted: " + t["canary"])
            elif ok:
                ctx.traces_validated += 1
            elif okl:
                ctx.deviation("recorded junction tree is valid but not a behaviour of JunctionTree.tla: " + T.describe_reject(t, reached), t.get("info"))
            else:
                ctx.violation("recorded junction tree / schedule rejected by JTTrace.tla: " + T.describe_reject(t, reachedl),
                              {"trace": t}, {"kind": "trace", "event": t["events"][reachedl - 1]["e"] if reachedl <= len(t["events"]) else "end"})
    if trs:
        ctx.sample({"code->spec trace": {k: trs[-1][k] for k in ("cliques", "mode")}, "events": trs[-1]["events"][:6]})
    ctx.extra["canary"] = canary
    ctx.assumptions += ["networkx find_cliques / minimum_spanning_tree are observed, not modelled: the spec allows every "
                        "max-weight spanning tree", "int mode: only validity of the chosen order is decided"]


def replay(ctx, path):
    import json
    r = json.load(open(path))["replay"]
    info = r.get("trace", {}).get("info", r)
    dom = Domain(info["domain"], [info["sizes"][a] for a in info["domain"]])
    jt = JunctionTree(dom, [tuple(c) for c in info["cliques"]], info.get("order"))
    print("maximal_cliques:", jt.maximal_cliques())
    print("tree edges:", list(jt.tree.edges()))
    print("mp_order:", jt.mp_order())
    res = T.validate(ctx, "jt/JTTrace.tla", TRACE_CFG_LENIENT % to_tla(set(info["domain"])),
                     [{"sz": info["sizes"], "cliques": [list(c) for c in info["cliques"]], "mode": "any", "events": jt_events(jt)}])
    print("JTTrace verdict:", "ACCEPT" if res[0][0] else "REJECT at %d/%d" % res[0][1:])
    return 0 if res[0][0] else 1


def raise_machinery(msg):
    from ..core import MachineryError
    raise MachineryError(msg)


def canaries(traces):
    """Corrupt recorded traces; every corrupted trace must be rejected (DESIGN 2.5)."""
    import copy
    out = {}
    for n, trs in traces.items():
        o = []
        for t in trs[:40]:
            sends = [i for i, e in enumerate(t["events"]) if e["e"] == "Send"]
            if len(sends) >= 4:
                c = copy.deepcopy(t)
                # move the last message (which depends on others) to the front
                ev = c["events"].pop(sends[-1])
                c["events"].insert(sends[0], ev)
                c["canary"] = "last Send moved first"
                o.append(c)
                c = copy.deepcopy(t)
                c["events"][sends[1]] = c["events"][sends[0]]
                c["canary"] = "duplicate Send"
                o.append(c)
            tr = [i for i, e in enumerate(t["events"]) if e["e"] == "Tree"][0]
            if len(t["events"][tr]["edges"]) >= 1:
                c = copy.deepcopy(t)
                c["events"][tr]["edges"].pop()
                c["canary"] = "tree edge dropped"
                o.append(c)
        if o:
            out[n] = o
    return out


def graphs6():
    """All graphs on 6 labelled vertices up to isomorphism (156), by canonical form."""
    V = LETTERS[:6]
    pairs = list(itertools.combinations(range(6), 2))
    pidx = {p: i for i, p in enumerate(pairs)}
    masks = np.arange(1 << 15, dtype=np.int64)
    canon = masks.copy()
    for p in itertools.permutations(range(6)):
        m = np.zeros_like(masks)
        for i, (a, b) in enumerate(pairs):
            j = pidx[tuple(sorted((p[a], p[b])))]
            m |= ((masks >> i) & 1) << j
        canon = np.minimum(canon, m)
    reps = sorted(set(canon.tolist()))
    return [[(V[a], V[b]) for i, (a, b) in enumerate(pairs) if mask >> i & 1] for mask in reps]
