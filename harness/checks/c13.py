"""C13 - estimation is history-free; returned models are immutable snapshots.

spec/est/EngineHistory.tla enumerates every call history (measurement list x total x solver) up to a depth; each is
replayed on ONE engine object and compared, call by call, with fresh engines; handed-out models are re-queried after
every later call; the caller's inputs are compared with deep copies."""
import copy, json, math, random
import numpy as np
from scipy import sparse
from ..core import to_tla, MachineryError
from .. import est as E
from ..pgm import Domain
from mbi import FactoredInference

DOM = (["a", "b", "c"], [2, 3, 2])
RNG0 = np.random.RandomState(7)
X = RNG0.randint(0, 6, size=(2, 3, 2)).astype(float)


def marg(attrs):
    ax = tuple(i for i, a in enumerate(DOM[0]) if a not in attrs)
    M = X.sum(axis=ax)
    rest = [a for a in DOM[0] if a in attrs]
    return np.transpose(M, [rest.index(a) for a in attrs]).reshape(-1)


def lists():
    n = lambda p: int(np.prod([DOM[1][DOM[0].index(a)] for a in p]))
    noise = np.random.RandomState(3)
    def m(p, scale=1.0, sigma=1.0, shift=0.0):
        Q = scale * np.eye(n(p))
        return (Q, Q @ marg(p) + sigma * noise.randn(n(p)) + shift, sigma, tuple(p))
    L = {}
    L["M1"] = [m("ab"), m("bc", sigma=2.0)]
    L["M1q"] = [m("ab", scale=3.0), m("bc", sigma=2.0)]                 # same projections and shapes, another spectrum
    L["M1y"] = [m("ab", shift=4.0), m("bc", sigma=2.0, shift=-2.0)]     # same structure, other answers
    L["M2"] = L["M1"] + [m("ca", sigma=0.5)]                            # grown list, new clique (cycle)
    L["M3"] = [m("a", sigma=0.5)]                                       # fewer attributes covered
    L["M4"] = [(sparse.csr_matrix(np.eye(n("ba"))), marg("ba") + 1.0, 1.0, ["b", "a"]), (None, marg("c"), 1.0, "c")]
    L["M5"] = [(np.eye(n("ab"))[:2], marg("ab")[:2] + 0.5, 1.0, ("a", "b"))]     # no query spans the all-ones vector: total not estimable
    L["M0"] = []                                                                   # nothing measured at all
    # a hand-assembled CSR identity on (a,b): column indices not sorted within rows and one coordinate given twice (0.5 + 0.5)
    nab = n("ab")
    rows_, cols_, vals_ = [], [], []
    for r_ in range(nab):
        if r_ == 0:
            rows_ += [0, 0]; cols_ += [0, 0]; vals_ += [0.5, 0.5]
        else:
            rows_.append(r_); cols_.append(r_); vals_.append(1.0)
    indptr_ = np.array([0, 2] + list(range(3, nab + 2)), dtype=np.int32)
    raw = sparse.csr_matrix((np.array(vals_), np.array(cols_, dtype=np.int32), indptr_), shape=(nab, nab))
    L["Mraw"] = [(raw, marg("ab") + 0.25, 1.0, ("a", "b")), m("bc", sigma=2.0)]
    # three chains over the same attributes, each with another middle attribute: an elimination order that is perfect for one
    # (its first attribute is a leaf) starts with the MIDDLE of another one and would create a larger clique there
    L["Cb"] = [m("ab"), m("bc", sigma=2.0)]
    L["Cc"] = [m("ac", sigma=0.7), m("cb", sigma=2.0)]
    L["Ca"] = [m("ba"), m("ac", sigma=1.5)]
    return L


TOT = {"none": None, "T": 40.0}
ZEROS = {("a", "b"): [(0, 1)]}


def fresh_engine(warm, iters, zeros):
    return FactoredInference(Domain(*DOM), structural_zeros=dict(zeros), iters=iters, warm_start=warm)


def answers(model):
    with np.errstate(all="ignore"):
        out = {"total": float(model.total), "cliques": [tuple(c) for c in model.cliques], "joint": model.datavector()}
        for s in E.all_subsets(list(model.domain.attrs)):
            out[s] = np.asarray(model.project(s).values, dtype=float).copy()
    return out


def same(a, b, tol=0.0):
    if a["cliques"] != b["cliques"] or not math.isclose(a["total"], b["total"], rel_tol=1e-12):
        return "structure/total differ: %s %r vs %s %r" % (a["cliques"], a["total"], b["cliques"], b["total"])
    for k in a:
        if k in ("total", "cliques"):
            continue
        x, y = np.asarray(a[k]), np.asarray(b[k])
        if x.shape != y.shape or not np.allclose(x, y, rtol=0, atol=max(tol, 1e-10) * max(1.0, a["total"]), equal_nan=True):
            return "answer %s differs by %.3g" % (k, float(np.nanmax(np.abs(x - y))) if x.shape == y.shape else float("nan"))
    return None


def snapshot_inputs(meas, zeros, options):
    def cp(m):
        Q, y, s, p = m
        Qc = None if Q is None else (Q.toarray().copy() if sparse.issparse(Q) else np.array(Q).copy())
        if sparse.issparse(Q) and hasattr(Q, "indptr"):
            Qc = (Qc, Q.data.copy(), Q.indices.copy(), Q.indptr.copy())
        return (Qc, np.array(y).copy(), s, copy.deepcopy(p))
    return [cp(m) for m in meas], copy.deepcopy(zeros), copy.deepcopy(options)


def inputs_changed(meas, zeros, options, snap):
    ms, zs, os_ = snap
    if len(meas) != len(ms):
        return "measurement list length changed"
    for (Q, y, s, p), (Qc, yc, sc, pc) in zip(meas, ms):
        Qn = None if Q is None else (Q.toarray() if sparse.issparse(Q) else np.asarray(Q))
        if isinstance(Qc, tuple):
            # a CSR query: also its stored arrays, bit for bit (the caller may index into them)
            Qc, d0, i0, p0 = Qc
            if not (sparse.issparse(Q) and hasattr(Q, "indptr") and np.array_equal(Q.data, d0) and np.array_equal(Q.indices, i0) and np.array_equal(Q.indptr, p0)):
                return "the stored arrays (data / indices / indptr) of a caller's sparse query matrix were modified"
        if (Qn is None) != (Qc is None) or (Qn is not None and not np.array_equal(Qn, Qc)):
            return "a query matrix was modified"
        if not np.array_equal(np.asarray(y), yc) or s != sc or p != pc or type(p) is not type(pc):
            return "a measurement tuple was modified"
    if zeros != zs:
        return "the zero specification was modified"
    if options != os_:
        return "the caller's options dict was modified: %r" % (options,)
    return None


def run(ctx, canary=False):
    rng = random.Random(ctx.seed)
    thorough = ctx.tier == "thorough"
    depth = 2
    ctx.rule = ("TLC enumerates every history of estimate calls of length %d (thorough: also 3, sampled) over 6 measurement lists "
                "(same structure with other answers / other query spectrum, grown, shrunk, re-spelled) x {total omitted, given} x "
                "{MD, RDA, IG}, cold and warm; each is replayed on one FactoredInference object (with structural zeros) and every result "
                "compared with a fresh engine's (all attribute subsets + joint, 1e-10), every previously returned model re-queried after "
                "each call, and the caller's lists/arrays/zero spec/options compared with deep copies. non-trivial = history of >= 2 calls")
    L = lists()
    cfg = ("CONSTANTS\n  Lists = %s\n  Totals = {\"none\", \"T\"}\n  Engines = {\"MD\", \"RDA\", \"IG\"}\n  Depth = %d\n  WarmModes = {TRUE, FALSE}\n"
           "  Callbacks = {\"none\", \"counter\", \"logger\"}\n"
           "SPECIFICATION Spec\nINVARIANT HistoryFree\nINVARIANT SnapshotsStable\nINVARIANT ObserverTransparent\nINVARIANT Emit\nCHECK_DEADLOCK FALSE\n")
    r = ctx.tlc("est/EngineHistory.tla", cfg % (to_tla(set(L)), depth), name="EngineHistory", workers=4, timeout=3600)
    if r.violated:
        ctx.violation("design-level: %s violated in EngineHistory.tla" % r.violated, {"tlc": r.trace_text()}, {"kind": "design"})
    emits = list({json.dumps(e, sort_keys=True): e for e in r.emits}.values())
    if thorough:
        # depth 3 over a reduced alphabet (four lists, no callbacks): 24^3 x 2 histories instead of 198^3 x 2
        cfg3 = cfg.replace('Callbacks = {\"none\", \"counter\", \"logger\"}', 'Callbacks = {\"none\"}')
        r3 = ctx.tlc("est/EngineHistory.tla", cfg3 % (to_tla({"M1", "M2", "M3", "M0"}), 3), name="EngineHistory3", workers=8, timeout=3600)
        e3 = list({json.dumps(e, sort_keys=True): e for e in r3.emits}.values())
        rng.shuffle(e3)
        emits += e3[:1500]
    rng.shuffle(emits)
    # every ordered pair of measurement lists occurs in the replayed sample (the rest of the budget is random)
    seen_pairs, front, back = set(), [], []
    for e in emits:
        key = tuple(c["l"] for c in e["calls"][:2])
        if len(key) == 2 and key not in seen_pairs:
            seen_pairs.add(key); front.append(e)
        else:
            back.append(e)
    emits = front + back
    ctx.extra["spec_histories"] = len(emits)
    ctx.extra["list_pairs_replayed"] = len(front)
    fresh_cache = {}
    iters = 25
    old_cbs = []          # [list the callback appends to, its length when its own call returned, description]
    for e in emits[: (len(front) + 4000 if thorough else len(front) + 60)]:
        warm = e["warm"]
        calls = e["calls"]
        info = {"warm_start": warm, "calls": calls, "iters": iters, "zeros": {"a,b": [[0, 1]]}}
        ctx.case(json.dumps(info, sort_keys=True), nontrivial=len(calls) >= 2)
        try:
            zeros = dict(ZEROS)
            eng = fresh_engine(warm, iters, zeros)
            handed = []
            for k, c in enumerate(calls):
                meas = [tuple(m) for m in L[c["l"]]]
                opts = {}
                snap = snapshot_inputs(meas, zeros, opts)
                seen_cb = []
                cb = None
                if c.get("cb") == "counter":
                    cb = lambda mu, seen_cb=seen_cb: seen_cb.append(float(sum(mu[cl].values.sum() for cl in mu)) / max(1, len(mu)))
                elif c.get("cb") == "logger":
                    from mbi.callbacks import Logger
                    cb = Logger(eng, frequency=7)
                omit = rng.random() < 0.5       # estimate()'s own default for options (a dict shared by all calls and all engines)
                if omit:
                    model = E.quiet(eng.estimate, meas, total=TOT[c["t"]], engine=c["s"], callback=cb)
                else:
                    model = E.quiet(eng.estimate, meas, total=TOT[c["t"]], engine=c["s"], callback=cb, options=opts)
                late = [d_ for lst, n0, d_ in old_cbs if len(lst) != n0]
                if late:
                    ctx.violation("call %d invoked a callback that was passed to an EARLIER estimate call (%s)" % (k + 1, late[0]), info, {"kind": "stale_callback"})
                    break
                if c.get("cb") == "counter":
                    fk = ("cbcount", c["l"], c["t"], c["s"])
                    if fk not in fresh_cache:
                        cnt = []
                        E.quiet(fresh_engine(False, iters, dict(ZEROS)).estimate, [tuple(m) for m in L[c["l"]]], total=TOT[c["t"]], engine=c["s"],
                                callback=lambda mu, cnt=cnt: cnt.append(1), options={})
                        fresh_cache[fk] = len(cnt)
                    if len(seen_cb) != fresh_cache[fk]:
                        ctx.violation("call %d invoked its callback %d times; a fresh engine with the same arguments invokes it %d times (options %s)" % (
                            k + 1, len(seen_cb), fresh_cache[fk], "omitted" if omit else "given"), info, {"kind": "callback_count"})
                        break
                    old_cbs.append([seen_cb, len(seen_cb), "options %s" % ("omitted" if omit else "given")])
                    del old_cbs[:-40]
                if c.get("cb") == "counter" and seen_cb:
                    if len(seen_cb) != iters or any(not math.isclose(v, float(model.total), rel_tol=1e-6) for v in seen_cb):
                        ctx.violation("call %d: the callback was called %d times (iters=%d) with marginal vectors of mean mass %s (total %r)" % (
                            k + 1, len(seen_cb), iters, sorted(set(round(v, 6) for v in seen_cb))[:3], float(model.total)), info, {"kind": "callback"})
                        break
                cur = answers(model)
                opts.pop("callback", None)       # estimate() documents that it stores the callback in options
                ch = inputs_changed(meas, zeros, opts, snap)
                if ch:
                    ctx.violation("call %d modified the caller's inputs: %s" % (k + 1, ch), info, {"kind": "inputs"})
                    break
                if not warm:
                    key = (c["l"], c["t"], c["s"])
                    if key not in fresh_cache:
                        fm = E.quiet(fresh_engine(False, iters, dict(ZEROS)).estimate, [tuple(m) for m in L[c["l"]]], total=TOT[c["t"]], engine=c["s"])
                        fresh_cache[key] = answers(fm)
                    d = same(cur, fresh_cache[key])
                    if d:
                        ctx.violation("call %d on a used engine differs from a fresh engine with the same arguments: %s" % (k + 1, d),
                                      dict(info, failing_call=k + 1), {"kind": "history"})
                        break
                # models handed out earlier must still answer as they did - after later estimate calls and after the caller's own
                # read-only uses of them (bulk queries, record generation with another row count)
                stale = None
                if k % 2 == 1:
                    for hm, _ in handed + [(model, cur)]:
                        try:
                            import contextlib, io
                            with contextlib.redirect_stdout(io.StringIO()), np.errstate(all="ignore"):
                                np.random.seed(11)
                                if float(hm.total) >= 1:
                                    hm.synthetic_data(rows=3, method="round")
                                    hm.synthetic_data(rows=2, method="sample")
                        except Exception:
                            pass
                    d0 = same(answers(model), cur)
                    if d0:
                        stale = "model returned by call %d changed after records were generated from it: %s" % (k + 1, d0)
                for j, (hm, hs) in enumerate(handed):
                    if stale:
                        break
                    d = same(answers(hm), hs)
                    if d:
                        stale = "model returned by call %d changed after call %d: %s" % (j + 1, k + 1, d)
                        break
                if stale:
                    ctx.violation(stale, dict(info, failing_call=k + 1), {"kind": "snapshot"})
                    break
                if any(model is hm for hm, _ in handed):
                    ctx.violation("call %d returned the same model object as an earlier call" % (k + 1), info, {"kind": "snapshot"})
                    break
                handed.append((model, cur))
        except Exception as ex:
            import traceback; info["traceback"] = traceback.format_exc()[-1500:]
            ctx.violation("estimate history raised %r" % ex, info, {"kind": "crash"})
    # the very same request objects again after the caller refreshed an answer vector IN PLACE (and after an unrelated direct
    # solver call): the second result is that of a fresh estimator on the refreshed data, in a new model object
    for s_ in ("MD", "RDA", "IG"):
        info = {"repeated_request": True, "solver": s_}
        ctx.case(json.dumps(info), nontrivial=True)
        try:
            eng = fresh_engine(False, iters, dict(ZEROS))
            meas = [tuple(m) for m in lists()["M1"]]
            m1 = E.quiet(eng.estimate, meas, total=40.0, engine=s_)
            a1 = answers(m1)
            meas[0][1][:] = meas[0][1] + 6.0                      # same array object, new contents
            m2 = E.quiet(eng.estimate, meas, total=40.0, engine=s_)
            fm = E.quiet(fresh_engine(False, iters, dict(ZEROS)).estimate, [tuple(m) for m in meas], total=40.0, engine=s_)
            d = same(answers(m2), answers(fm))
            if d:
                ctx.violation("the same request objects, with an answer vector refreshed in place, give another result than a fresh engine: %s" % d, info, {"kind": "history"})
            if m2 is m1:
                ctx.violation("a repeated request returned the model object of the earlier call", info, {"kind": "snapshot"})
            elif same(answers(m1), a1):
                ctx.violation("the model of the first call changed after the repeated request: %s" % same(answers(m1), a1), info, {"kind": "snapshot"})
        except Exception as ex:
            ctx.violation("repeated request raised %r" % ex, info, {"kind": "crash"})
    # the caller's zero specification, also when a key is a bare attribute name: untouched by constructing an engine
    for spec in ({"a": [(1,)]}, {"c": [(0,)], ("a", "b"): [(0, 1)]}):
        ctx.case(json.dumps({"zero_spec_keys": [str(k_) for k_ in spec]}), nontrivial=True)
        keys0 = list(spec.keys())
        vals0 = [list(v_) for v_ in spec.values()]
        try:
            FactoredInference(Domain(*DOM), structural_zeros=spec, iters=2)
        except Exception as ex:
            ctx.violation("constructing an estimator with zero specification %r raised %r" % (spec, ex), {"spec": str(spec)}, {"kind": "crash"})
            continue
        if list(spec.keys()) != keys0 or any(k1 is not k0 for k1, k0 in zip(spec.keys(), keys0)) or [list(v_) for v_ in spec.values()] != vals0:
            ctx.violation("constructing an estimator modified the caller's zero specification: keys %r -> %r" % (keys0, list(spec.keys())),
                          {"spec_before": str(keys0), "spec_after": str(list(spec.keys()))}, {"kind": "inputs"})
    # warm start converges to the same optimum as a cold start (grown / changed lists)
    nw = 40 if thorough else 8
    for i_ in range(nw):
        if i_ % 2 == 0:
            a, b = rng.choice(["M1", "M3", "M1y"]), rng.choice(["M2", "M1", "M1q"])
            zeros = {}
        else:
            # changed (not merely grown) lists with structural zeros on (a,b): the clique that absorbed the zeros in the first call
            # is not a clique of the second model
            a, b = rng.choice(["M1", "Cb", "M2"]), rng.choice(["M3", "Cc", "Ca", "M4"])
            zeros = dict(ZEROS)
        s = rng.choice(["MD", "RDA", "IG"])
        info = {"warm_same_optimum": [a, b], "solver": s, "zeros": {",".join(k_): v_ for k_, v_ in zeros.items()}}
        ctx.case(json.dumps(info), nontrivial=True)
        try:
            it = 2000
            w = fresh_engine(True, it, dict(zeros))
            E.quiet(w.estimate, [tuple(m) for m in L[a]], total=40.0, engine=s)
            mw = E.quiet(w.estimate, [tuple(m) for m in L[b]], total=40.0, engine=s)
            mc = E.quiet(fresh_engine(False, it, dict(zeros)).estimate, [tuple(m) for m in L[b]], total=40.0, engine=s)
            for zc, cells in zeros.items():
                for nm_, mdl in (("warm", mw), ("cold", mc)):
                    tab = np.asarray(mdl.project(zc).values, dtype=float)
                    mass = sum(float(tab[tuple(c_)]) for c_ in cells)
                    if not (mass <= 1e-9 * 40.0):
                        ctx.violation("%s start: mass %.3g on the structurally impossible cells %s of %s after the second call" % (nm_, mass, cells, zc),
                                      info, {"kind": "warm_optimum"})
            meas = [(None if m[0] is None else (m[0].toarray() if sparse.issparse(m[0]) else m[0]), m[1], m[2], tuple(m[3]) if not isinstance(m[3], str) else (m[3],)) for m in L[b]]
            lw, lc = E.l2_loss_of_model(mw, meas), E.l2_loss_of_model(mc, meas)
            if abs(lw - lc) > 1e-4 * max(1.0, lc):
                ctx.violation("warm start reaches loss %r, cold start %r on the same measurements" % (lw, lc), info, {"kind": "warm_optimum"})
        except Exception as ex:
            ctx.violation("warm-start comparison raised %r" % ex, info, {"kind": "crash"})
    if emits:
        ctx.sample({"history": emits[0]})
    ctx.assumptions += ["results compared at 1e-10 x total (bitwise equality was observed; the slack only absorbs eigsh start vectors)",
                        "estimate() storing the callback in the options dict it is given is documented behaviour, not a modification"]


def replay(ctx, path):
    print(json.dumps(json.load(open(path)), indent=1)[:3000])
    return 0
