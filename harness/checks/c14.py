"""C14 - factor algebra is addressed by attribute name, never by position.

spec/factor/FactorAlgebra.tla : result layout + addressing map of every operation (one test per transition)
spec/factor/FactorStore.tla   : in-place operation sequences on two objects (integer tables)
"""
import json, math, random
import numpy as np
from ..core import to_tla, MachineryError
from ..pgm import Domain, Factor, CliqueVector

ALL_OPS = ["add", "sub", "mul", "logaddexp", "div", "iadd", "imul", "sum", "logsumexp", "max", "project_sum",
           "project_logsumexp", "transpose", "condition", "expand", "exp", "log", "copy", "scalar", "sum_all",
           "copy_out", "exp_out"]
INVS = ["LayoutOK", "MergeOrderOK", "PartitionOK", "RequestedOrderOK", "BijectionOK"]
EXACT = {"add", "sub", "mul", "iadd", "imul", "sum", "max", "project_sum", "transpose", "condition", "expand", "copy",
         "sum_all", "copy_out"}


def sizes_of(univ):
    return {a: {"a": 2, "b": 3, "c": 1}.get(a, 2) for a in univ}


def mk(layout, sz, base, scale=1.0):
    dom = Domain(list(layout), [sz[a] for a in layout])
    n = dom.size()
    return Factor(dom, (np.arange(n, dtype=float) + base) * scale)


def logsumexp(xs):
    m = max(xs)
    return m + math.log(sum(math.exp(x - m) for x in xs))


def expected(op, e, fv, gv, scalar=None):
    m = e["map"]
    if op in ("add", "iadd"):
        return [fv[i - 1] + gv[j - 1] for i, j in m]
    if op == "sub":
        return [fv[i - 1] - gv[j - 1] for i, j in m]
    if op in ("mul", "imul"):
        return [fv[i - 1] * gv[j - 1] for i, j in m]
    if op == "div":
        return [fv[i - 1] / gv[j - 1] for i, j in m]
    if op == "logaddexp":
        return [float(np.logaddexp(fv[i - 1], gv[j - 1])) for i, j in m]
    if op in ("sum", "project_sum", "sum_all"):
        return [sum(fv[i - 1] for i in c) for c in m]
    if op in ("logsumexp", "project_logsumexp"):
        return [logsumexp([fv[i - 1] for i in c]) for c in m]
    if op == "max":
        return [max(fv[i - 1] for i in c) for c in m]
    if op in ("transpose", "condition", "expand", "copy", "copy_out"):
        return [fv[c[0] - 1] for c in m]
    if op in ("exp", "exp_out"):
        return [math.exp(fv[c[0] - 1]) for c in m]
    if op == "log":
        return [math.log(fv[c[0] - 1]) for c in m]
    raise MachineryError("unknown op " + op)


def perform(op, e, f, g, sz):
    """Returns list of (label, result Factor or scalar, expected-op-name, scalar-fn or None)."""
    arg = e["arg"]
    seq = arg.get("seq", [])
    if op == "add":
        return [("f+g", f + g)]
    if op == "sub":
        return [("f-g", f - g)]
    if op == "mul":
        return [("f*g", f * g)]
    if op == "logaddexp":
        return [("f.logaddexp(g)", f.logaddexp(g))]
    if op == "div":
        return [("f/g", f / g)]
    if op == "iadd":
        h = f.copy(); h0 = h; h += g
        return [("f+=g", h)] + ([] if h is h0 else [("f+=g rebinding", None)])
    if op == "imul":
        h = f.copy(); h0 = h; h *= g
        return [("f*=g", h)] + ([] if h is h0 else [("f*=g rebinding", None)])
    if op in ("sum", "logsumexp", "max"):
        fn = getattr(f, op)
        out = [("f.%s(%s)" % (op, list(seq)), fn(list(seq)))]
        if seq:
            out.append(("f.%s(%s)" % (op, tuple(seq)), fn(tuple(seq))))
        return out
    if op == "sum_all":
        return [("f.sum()", f.sum())]
    if op in ("project_sum", "project_logsumexp"):
        agg = "sum" if op == "project_sum" else "logsumexp"
        out = [("f.project(%s,%s)" % (list(seq), agg), f.project(list(seq), agg)),
               ("f.project(%s,%s)" % (tuple(seq), agg), f.project(tuple(seq), agg))]
        if len(seq) == 1:
            out.append(("f.project('%s',%s)" % (seq[0], agg), f.project(seq[0], agg)))   # repo tests' spelling
        return out
    if op == "transpose":
        return [("f.transpose(%s)" % (list(seq),), f.transpose(list(seq))), ("f.transpose(tuple)", f.transpose(tuple(seq)))]
    if op == "condition":
        ev = dict(zip(arg["keys"], arg["vals"]))
        ev2 = dict(reversed(list(ev.items())))
        return [("f.condition(%s)" % ev, f.condition(ev)), ("f.condition(%s)" % ev2, f.condition(ev2))]
    if op == "expand":
        return [("f.expand(%s)" % (list(seq),), f.expand(Domain(list(seq), [sz[a] for a in seq])))]
    if op == "exp":
        return [("f.exp()", f.exp())]
    if op == "log":
        return [("f.log()", f.log())]
    if op == "copy":
        return [("f.copy()", f.copy())]
    if op == "copy_out":
        out = Factor.zeros(f.domain)
        r = f.copy(out=out)
        return [("f.copy(out=)", out)] + ([] if r is out else [("copy(out=) returns out", None)])
    if op == "exp_out":
        out = Factor.zeros(f.domain)
        r = f.exp(out=out)
        return [("f.exp(out=)", out)] + ([] if r is out else [("exp(out=) returns out", None)])
    raise MachineryError("unknown op " + op)


def cmp_vals(got, want, exact):
    got = np.asarray(got, dtype=float).reshape(-1)
    want = np.asarray(want, dtype=float)
    if got.shape != want.shape:
        return False
    return bool(np.array_equal(got, want)) if exact else bool(np.allclose(got, want, rtol=1e-12, atol=1e-300))


def check_emit(ctx, e, sz):
    op = e["op"]
    f = mk(e["f"], sz, 1.0, 1.0 if op not in ("exp", "exp_out", "logaddexp", "logsumexp", "project_logsumexp") else 0.25)
    g = mk(e["g"], sz, 101.0, 1.0 if op != "logaddexp" else 0.25)
    fv, gv = f.values.reshape(-1).copy(), g.values.reshape(-1).copy()
    info = {"op": op, "f_layout": e["f"], "g_layout": e["g"], "arg": e["arg"], "sizes": sz}
    try:
        if op == "scalar":
            c = 2.5
            results = [("f+c", f + c, [x + c for x in fv]), ("c+f", c + f, [c + x for x in fv]),
                       ("f*c", f * c, [x * c for x in fv]), ("c*f", c * f, [c * x for x in fv]),
                       ("f-c", f - c, [x - c for x in fv]), ("f/c", f / c, [x / c for x in fv])]
            h = f.copy(); h += c
            results.append(("f+=c", h, [x + c for x in fv]))
            h = f.copy(); h *= c
            results.append(("f*=c", h, [x * c for x in fv]))
            # neutral scalars: same values as f, but still a NEW factor (sum([f]) and `acc = 0; acc += f` start from 0 + f)
            results += [("f+0", f + 0, list(fv)), ("0+f", 0 + f, list(fv)), ("f*1", f * 1, list(fv)), ("1*f", 1 * f, list(fv)),
                        ("f-0", f - 0, list(fv)), ("f/1", f / 1, list(fv)), ("f+0.0", f + 0.0, list(fv)), ("sum([f])", sum([f]), list(fv))]
            exact = True
        else:
            want = expected(op, e, fv, gv)
            results = [(lab, r, want) for lab, r in perform(op, e, f, g, sz)]
            if op in ("logsumexp", "project_logsumexp"):
                # values spread over far more than the range of exp(): every kept assignment must be stabilised on its own slice
                wide = Factor(f.domain, f.values * 900.0)
                wv = [x * 900.0 for x in fv]
                results += [(lab + " [x900]", r, expected(op, e, wv, gv)) for lab, r in perform(op, e, wide, g, sz)]
            if op == "div":
                # tiny but non-zero divisors (marginals of models with a small total, rare separator values) are still divisors;
                # a divisor of exactly 0 gives 0 (the library's declared 0/0 convention)
                tiny = Factor(g.domain, g.values * 1e-15)
                results.append(("f/(1e-15*g)", f / tiny, expected(op, e, fv, [x * 1e-15 for x in gv])))
                gz = g.values.copy(); gz.reshape(-1)[0] = 0.0
                wz = [0.0 if j == 1 else fv[i - 1] / gv[j - 1] for i, j in e["map"]]
                results.append(("f/g with one zero divisor cell", f / Factor(g.domain, gz), wz))
            exact = op in EXACT
    except Exception as ex:
        ctx.violation("factor operation raised %r" % ex, info, {"kind": "crash", "op": op})
        return
    for lab, r, want in results:
        bad = None
        if r is None:
            bad = lab + " violated"
        elif op == "sum_all":
            if not cmp_vals([r], want, True):
                bad = "%s = %r, expected %r" % (lab, r, want)
        else:
            out = e["out"] if op != "scalar" else e["f"]
            if tuple(r.domain.attrs) != tuple(out) or tuple(r.domain.shape) != tuple(sz[a] for a in out):
                bad = "%s: result axes %s %s, spec %s" % (lab, r.domain.attrs, r.domain.shape, out)
            elif tuple(r.values.shape) != tuple(r.domain.shape):
                bad = "%s: values shape %s does not match domain %s" % (lab, r.values.shape, r.domain.shape)
            elif not cmp_vals(r.values, want, exact):
                bad = "%s: values %s, by-name semantics give %s" % (lab, np.asarray(r.values).reshape(-1).tolist(), list(want))
        if bad:
            ctx.violation("Factor algebra differs from FactorAlgebra.tla: " + bad, info, {"kind": "algebra", "op": op})
    if not np.array_equal(f.values.reshape(-1), fv) or not np.array_equal(g.values.reshape(-1), gv):
        ctx.violation("operation %s modified its operands" % op, info, {"kind": "aliasing", "op": op})
    # a pure operation hands back a factor of its own: writing into the result in place must not reach an operand
    # (arithmetic only: transpose / expand / project legitimately return numpy views)
    if op in ("scalar", "add", "sub", "mul", "div", "logaddexp"):
        for lab, r, _ in results:
            if isinstance(r, Factor) and not lab.startswith(("f+=", "f*=")):
                try:
                    r.values[...] = r.values + 1000.0
                except Exception:
                    continue
                if not np.array_equal(f.values.reshape(-1), fv) or not np.array_equal(g.values.reshape(-1), gv):
                    ctx.violation("writing into the result of %s changes an operand (the result aliases it; in-place and pure forms then disagree)" % lab,
                                  info, {"kind": "aliasing", "op": op})
                    f.values.reshape(-1)[...] = fv
                    g.values.reshape(-1)[...] = gv
                    break
    # CliqueVector arithmetic clique by clique, derived from the same addressing map
    if op == "add" and tuple(e["f"]) != tuple(e["g"]):
        try:
            check_cv(ctx, e, sz, f, g, info)
        except Exception as ex:
            ctx.violation("CliqueVector operation raised %r" % ex, info, {"kind": "crash", "op": "cliquevector"})


def check_cv(ctx, e, sz, f, g, info):
    kf, kg = tuple(e["f"]), tuple(e["g"])
    cv1 = CliqueVector({kf: f.copy(), kg: g.copy()})
    cv2 = CliqueVector({kf: mk(e["f"], sz, 7.0), kg: mk(e["g"], sz, 13.0)})
    bad = []
    s = cv1 + cv2
    d = cv1 - cv2
    m1, m2 = 3.0 * cv1, cv1 * 3.0
    for k in (kf, kg):
        if not np.array_equal(s[k].values, cv1[k].values + cv2[k].values): bad.append("cv1+cv2 on %s" % (k,))
        if not np.array_equal(d[k].values, cv1[k].values - cv2[k].values): bad.append("cv1-cv2 on %s" % (k,))
        if not np.array_equal(m1[k].values, 3.0 * cv1[k].values) or not np.array_equal(m2[k].values, 3.0 * cv1[k].values): bad.append("scalar*cv on %s" % (k,))
        if tuple(s[k].domain.attrs) != k: bad.append("clique layout changed on %s" % (k,))
    want = float((cv1[kf].values * cv2[kf].values).sum() + (cv1[kg].values * cv2[kg].values).sum())
    if abs(cv1.dot(cv2) - want) > 1e-9 * max(1.0, abs(want)): bad.append("dot = %r, expected %r" % (cv1.dot(cv2), want))
    if set(s.keys()) != {kf, kg}: bad.append("keys changed")
    # a vector whose entries were rebound after construction (v[cl] = v[cl] + g) must behave like its current contents
    cv3 = CliqueVector({kf: f.copy(), kg: g.copy()})
    cv3[kf] = cv3[kf] + mk(e["f"], sz, 50.0)
    cur = {kf: cv3[kf].values.copy(), kg: cv3[kg].values.copy()}
    t1, t2, t3 = 2.0 * cv3, cv3 * 2.0, cv2 - cv3
    for k in (kf, kg):
        if not np.array_equal(t1[k].values, 2.0 * cur[k]) or not np.array_equal(t2[k].values, 2.0 * cur[k]):
            bad.append("scalar * vector ignores an entry rebound after construction (%s)" % (k,))
        if not np.array_equal(t3[k].values, cv2[k].values - cur[k]):
            bad.append("vector - vector ignores an entry rebound after construction (%s)" % (k,))
    if abs(cv3.dot(cv2) - float((cur[kf] * cv2[kf].values).sum() + (cur[kg] * cv2[kg].values).sum())) > 1e-9 * max(1.0, abs(want)):
        bad.append("dot ignores an entry rebound after construction")
    # the two vectors may have been filled in another key order: entries are paired by KEY
    cv2r = CliqueVector({})
    for k in (kg, kf):
        cv2r[k] = cv2[k]
    sr, dr = cv1 + cv2r, cv1 - cv2r
    for k in (kf, kg):
        if tuple(sr[k].domain.attrs) != k or not np.array_equal(sr[k].values, cv1[k].values + cv2[k].values) or not np.array_equal(dr[k].values, cv1[k].values - cv2[k].values):
            bad.append("cv1 +/- cv2 with the second vector filled in another key order, clique %s" % (k,))
            break
    # the same clique may be stored with its attributes in another order in the other vector: dot pairs cells by NAME
    cv2t = CliqueVector({k: (cv2[k].transpose(tuple(reversed(k))) if len(k) >= 2 else cv2[k]) for k in (kf, kg)})
    if abs(cv1.dot(cv2t) - want) > 1e-9 * max(1.0, abs(want)):
        bad.append("dot with a factor stored in another attribute order = %r, by-name value %r" % (cv1.dot(cv2t), want))
    # combine: absorbed into the merged clique by name, each source exactly once
    out = tuple(e["out"])
    base = CliqueVector.zeros(Domain(list(out), [sz[a] for a in out]), [out])
    base.combine(cv1)
    fv, gv = f.values.reshape(-1), g.values.reshape(-1)
    want = [fv[i - 1] + gv[j - 1] for i, j in e["map"]]
    if out in (kf, kg) and kf != kg and set(kf) == set(kg):
        pass
    if not np.array_equal(base[out].values.reshape(-1), np.array(want)):
        bad.append("combine into %s gives %s, by-name sum %s" % (out, base[out].values.reshape(-1).tolist(), want))
    if len(out) >= 2:
        # two target cliques that both contain every source: each source is absorbed exactly once (by one of them)
        out2 = tuple(reversed(out))
        dom2 = Domain(list(out), [sz[a] for a in out])
        base2 = CliqueVector.zeros(dom2, [out, out2])
        base2.combine(cv1)
        tot = base2[out].values + np.transpose(base2[out2].values, [out2.index(a) for a in out])
        if not np.array_equal(tot.reshape(-1), np.array(want)):
            bad.append("combine into two containing cliques %s, %s absorbs a source other than exactly once: %s, by-name sum %s" % (
                out, out2, tot.reshape(-1).tolist(), want))
    if bad:
        ctx.violation("CliqueVector arithmetic differs from clique-by-clique semantics: " + "; ".join(bad[:3]), info,
                      {"kind": "cliquevector"})


def check_store(ctx, e, sz):
    info = {"f_layout": e["fl"], "g_layout": e["gl"], "ops": [h["op"] + (str(h["c"]) if "c=" in h["op"] or h["op"].endswith("=c") else "") for h in e["hist"]]}
    try:
        fdom = Domain(list(e["fl"]), [sz[a] for a in e["fl"]])
        gdom = Domain(list(e["gl"]), [sz[a] for a in e["gl"]])
        f = Factor(fdom, np.array(e["f0"], dtype=float))
        g = Factor(gdom, np.array(e["g0"], dtype=float))
        f0, g0 = f, g
        for k, h in enumerate(e["hist"]):
            op, c = h["op"], float(h["c"])
            if op == "f+=g": f += g
            elif op == "f*=g": f *= g
            elif op == "g+=f": g += f
            elif op == "f+=c": f += c
            elif op == "f*=c": f *= c
            elif op == "f.copy(out=g)": f.copy(out=g)
            elif op == "h=f+g":
                _ = f + g if set(e["gl"]) <= set(e["fl"]) or True else None
            else:
                raise MachineryError("unknown store op " + op)
            if f is not f0 or g is not g0:
                ctx.violation("in-place operation %s rebound the object" % op, info, {"kind": "store"})
                return
            # projections asked BETWEEN in-place updates always describe the current contents
            for obj, lay, want_now in ((f, e["fl"], h["f"]), (g, e["gl"], h["g"])):
                if len(lay) >= 1:
                    rev = list(reversed(lay))
                    pr = obj.project(rev)
                    wantp = np.transpose(np.array(want_now, dtype=float).reshape([sz[a] for a in lay]), [list(lay).index(a) for a in rev]).reshape(-1)
                    if tuple(pr.domain.attrs) != tuple(rev) or not np.array_equal(np.asarray(pr.values, dtype=float).reshape(-1), wantp):
                        ctx.violation("after step %d (%s): project(%s) = %s, the current contents give %s" % (
                            k + 1, op, rev, np.asarray(pr.values).reshape(-1).tolist(), wantp.tolist()), info, {"kind": "store", "op": op})
                        return
                    one = obj.project([lay[0]])
                    want1 = np.array(want_now, dtype=float).reshape([sz[a] for a in lay]).sum(axis=tuple(range(1, len(lay))))
                    if not np.allclose(np.asarray(one.values, dtype=float).reshape(-1), want1.reshape(-1), rtol=1e-12, atol=0):
                        ctx.violation("after step %d (%s): project([%s]) does not describe the current contents" % (k + 1, op, lay[0]), info, {"kind": "store", "op": op})
                        return
            gotf, gotg = f.values.reshape(-1), g.values.reshape(-1)
            if (tuple(f.domain.attrs) != tuple(e["fl"]) or tuple(g.domain.attrs) != tuple(e["gl"]) or
                    not np.array_equal(gotf, np.array(h["f"], dtype=float)) or not np.array_equal(gotg, np.array(h["g"], dtype=float))):
                ctx.violation("after step %d (%s): f=%s g=%s, FactorStore.tla f=%s g=%s" % (
                    k + 1, op, gotf.tolist(), gotg.tolist(), h["f"], h["g"]), info, {"kind": "store", "op": op})
                return
    except MachineryError:
        raise
    except Exception as ex:
        ctx.violation("in-place sequence raised %r" % ex, info, {"kind": "crash", "op": "store"})


def run(ctx, canary=False):
    thorough = ctx.tier == "thorough"
    univ = ["a", "b", "c"] + (["d"] if thorough else [])
    sz = sizes_of(univ)
    ctx.rule = ("TLC enumerates every ordered attribute subset pair over %s (sizes %s, incl. a size-1 axis) x every operation x "
                "every argument (attribute subsets in every order, every evidence assignment); each transition is executed on real "
                "Factor objects with distinct cell values and compared cell by cell and axis by axis; FactorStore.tla behaviours "
                "(all in-place sequences of length <= %d on two objects) are replayed step by step. non-trivial = distinct "
                "(operation, operand layouts, argument) with at least one operand of >= 2 attributes" % (univ, sz, 3 if thorough else 2))
    cfg = ("CONSTANTS\n  Univ = %s\n  Sz <- MCSz\n  Ops <- MCOps\nSPECIFICATION Spec\n%s\nCHECK_DEADLOCK FALSE\n" % (
        to_tla(set(univ)), "\n".join("INVARIANT " + i for i in INVS)))
    r = ctx.tlc("factor/MC_FA.tla", cfg, name="FactorAlgebra", workers=8, coverage=not thorough, timeout=7200)
    if r.violated:
        ctx.violation("design-level: %s violated in FactorAlgebra.tla" % r.violated, {"tlc": r.trace_text()}, {"kind": "design"})
    seen = set()
    unary = {"sum", "logsumexp", "max", "project_sum", "project_logsumexp", "transpose", "condition", "expand", "exp", "log",
             "copy", "scalar", "sum_all", "copy_out", "exp_out"}
    for e in r.emits:
        key = (e["op"], tuple(e["f"]), tuple(e["g"]) if e["op"] not in unary else (), json.dumps(e["arg"], sort_keys=True))
        if key in seen:
            continue
        seen.add(key)
        ctx.case(key, nontrivial=len(e["f"]) >= 2 or len(e["g"]) >= 2)
        check_emit(ctx, e, sz)
    ops_seen = {k[0] for k in seen}
    if ops_seen != set(ALL_OPS):
        raise MachineryError("operations never enumerated: %s" % (set(ALL_OPS) - ops_seen))
    ctx.extra["operations"] = sorted(ops_seen)
    for e in r.emits:
        if e["op"] == "project_sum" and len(e["f"]) == 3 and len(e["arg"]["seq"]) == 2:
            ctx.sample({"transition": {k: e[k] for k in ("op", "f", "arg", "out", "map")}})
            break
    # in-place sequences
    cfg = ("CONSTANTS\n  Univ = %s\n  Sz <- MCSz\n  Depth = %d\n  LayoutPairs <- MCPairs\nSPECIFICATION Spec\n"
           "INVARIANT LayoutStable\nINVARIANT Emit\nCHECK_DEADLOCK FALSE\n" % (to_tla({"a", "b", "c"}), 3 if thorough else 2))
    r2 = ctx.tlc("factor/MC_FS.tla", cfg, name="FactorStore", workers=8, timeout=7200)
    if r2.violated:
        ctx.violation("design-level: %s violated in FactorStore.tla" % r2.violated, {"tlc": r2.trace_text()}, {"kind": "design"})
    sz3 = sizes_of(["a", "b", "c"])
    seen2 = set()
    for e in r2.emits:
        key = (tuple(e["fl"]), tuple(e["gl"]), tuple((h["op"], h["c"]) for h in e["hist"]))
        if key in seen2:
            continue
        seen2.add(key)
        ctx.case(("store",) + key, nontrivial=len(e["fl"]) >= 2 or len(e["gl"]) >= 2)
        check_store(ctx, e, sz3)
    if r2.emits:
        ctx.sample({"in-place behaviour": r2.emits[len(r2.emits) // 2]})
    ctx.traces_validated = 0
    ctx.assumptions += ["in-place operations are checked on factors that own their array (views from transpose/condition/expand are out of scope)",
                        "log adds 1e-100 (named deviation): compared at 1e-12 relative on values >= 0.25",
                        "operands finite; the -inf rule of __sub__ is covered by C01/C10"]


def replay(ctx, path):
    r = json.load(open(path))
    print(json.dumps(r, indent=1)[:3000])
    return 0
