"""C02 - every query path answers from one and the same joint distribution.

spec/query/ModelQuery.tla (call histories x cache states), VarElim.tla (all elimination orders),
PairChain.tla (bulk-query recurrence; negative control on a non-RIP tree)
"""
import itertools, json, os, random, tempfile
import numpy as np
from ..core import to_tla, MachineryError, TSet
from ..pgm import Domain, Factor, CliqueVector, GraphicalModel, fs, LETTERS, to_order
from .c01 import catalogue, potentials, build_model

KINDS = ["ones", "identity", "prefix", "pick0", "twice", "ramp", "double0"]


def kmat(kind, n):
    if kind == "ones": return np.ones((1, n))
    if kind == "identity": return np.eye(n)
    if kind == "prefix": return np.tril(np.ones((n, n)))
    if kind == "pick0":
        m = np.zeros((1, n)); m[0, 0] = 1; return m
    if kind == "twice": return 2 * np.eye(n)
    if kind == "ramp": return np.arange(n, dtype=float).reshape(1, n)
    if kind == "double0":
        m = np.zeros((1, n)); m[0, 0] = 2; return m


def all_seqs(V):
    out = []
    for r in range(len(V) + 1):
        for c in itertools.combinations(V, r):
            out += [list(p) for p in itertools.permutations(c)]
    return out


def structs_for(tier):
    cat = catalogue("quick")
    keep = {"chain3-perm", "triangle", "nested", "isolated", "chain4", "star", "cycle4", "disconnected", "tri+pendant", "cycle5", "fan"}
    if tier == "thorough":
        keep |= {"chain3", "dup", "single"}
    return [s for s in cat if s["name"] in keep]


def run(ctx, canary=False):
    rng = random.Random(ctx.seed)
    thorough = ctx.tier == "thorough"
    ctx.rule = ("TLC enumerates, per clique structure, every attribute sequence (all subsets x orders) in both cache states at "
                "depth 1 and all call histories of length %d over an alphabet of project/bulk/krondot/datavector/save+load calls; "
                "each behaviour is replayed on ONE GraphicalModel and every answer compared (1e-9) with the integer marginal of the "
                "explicit joint times total/Z, in the requested attribute order. VarElim.tla covers every elimination order, "
                "PairChain.tla the bulk recurrence on the implementation's trees plus a non-RIP negative control. "
                "non-trivial = distinct (structure, cache state, history) containing a query of >= 2 attributes" % (3 if thorough else 2))
    cat = structs_for(ctx.tier)
    models = []
    for s in cat:
        V = s["ord"]
        m = build_model(s, None if False else list(V), V)   # construction with a given order; other orders below
        models.append(m)
    # structures as TLA constants
    def tla_struct(s, m):
        uncovered = [a for a in s["ord"] if not any(a in p["at"] for p in s["pots"])]
        pots = s["pots"] + [{"at": [a], "w": [1] * s["sz"][a]} for a in uncovered]
        return {"V": set(s["ord"]), "sz": s["sz"], "ord": s["ord"], "pots": pots,
                "cliques": set(fs(c) for c in m.cliques)}
    tstructs = [tla_struct(s, m) for s, m in zip(cat, models)]

    # ---- call alphabets
    def alphabet(s, full):
        V = s["ord"]
        seqs = all_seqs(V)
        calls = []
        if full:
            calls += [{"k": "project", "seq": q} for q in seqs]
            big = [q for q in seqs if len(q) >= 1]
            rng.shuffle(big)
            calls.append({"k": "many", "list": big[:400]})      # one bulk query asking for (nearly) every attribute sequence at once
        else:
            mid = [q for q in seqs if 1 <= len(q) < len(V)]
            pick = [q for q in seqs if len(q) in (0, len(V))][:3] + rng.sample(mid, min(5, len(mid)))
            calls += [{"k": "project", "seq": q} for q in pick]
            m13 = [x for x in seqs if 1 <= len(x) <= 3]
            m2 = [x for x in seqs if len(x) == 2] or m13
            calls.append({"k": "many", "list": rng.sample(m13, min(4, len(m13)))})
            calls.append({"k": "many", "list": rng.sample(m2, min(2, len(m2))) + [list(V)[:1]]})
            calls.append({"k": "krondot", "kinds": {a: rng.choice(KINDS) for a in V}})
            calls.append({"k": "krondot", "kinds": {a: "identity" for a in V}})
            calls.append({"k": "krondot", "kinds": {a: rng.choice(["ramp", "double0", "ones"]) for a in V}})
            calls.append({"k": "datavector"})
            calls.append({"k": "saveload"})
            calls.append({"k": "synth"})
            calls.append({"k": "reparam"})
        return calls

    def run_mq(name, full, depth):
        mc = os.path.join(ctx.work, "MC_%s.tla" % name)
        alph = [alphabet(s, full) for s in cat]
        with open(mc, "w") as f:
            f.write("---- MODULE MC_%s ----\nEXTENDS ModelQuery\nMCStructs == %s\nMCCalls == %s\n====\n" % (
                name, to_tla(tstructs), to_tla([TSet(a) for a in alph])))
        cfg = ("CONSTANTS\n  Structs <- MCStructs\n  Calls <- MCCalls\n  Depth = %d\nSPECIFICATION Spec\nINVARIANT HistoryFree\n"
               "INVARIANT SumsToZ\nINVARIANT Emit\nCHECK_DEADLOCK FALSE\n" % depth)
        return ctx.tlc(mc, cfg, name=name, workers=8, extra_modules=("query",), timeout=14400)

    emits = []
    r1 = run_mq("MQ_all_sequences", True, 1)
    r2 = run_mq("MQ_histories", False, 3 if thorough else 2)
    for r in (r1, r2):
        if r.violated:
            ctx.violation("design-level: %s violated in ModelQuery.tla" % r.violated, {"tlc": r.trace_text()}, {"kind": "design"})
        emits += r.emits
    ctx.extra["spec_behaviours"] = len(emits)

    # ---- VarElim and PairChain (design level, on the implementation's own structures)
    mc = os.path.join(ctx.work, "MC_VE.tla")
    with open(mc, "w") as f:
        f.write("---- MODULE MC_VE ----\nEXTENDS VarElim\nMCStructs == %s\n====\n" % to_tla(tstructs))
    rv = ctx.tlc(mc, "CONSTANTS\n  Structs <- MCStructs\nSPECIFICATION Spec\nINVARIANT Sound\nCHECK_DEADLOCK FALSE\n",
                 name="VarElim", workers=8, extra_modules=("query",), timeout=7200)
    if rv.violated:
        ctx.violation("design-level: variable elimination unsound in VarElim.tla", {"tlc": rv.trace_text()}, {"kind": "design"})
    pstructs = []
    for s, m, t in zip(cat, models, tstructs):
        pstructs.append({"V": t["V"], "sz": t["sz"], "pots": t["pots"], "N": set(fs(c) for c in m.cliques),
                         "T": set(fs((fs(a), fs(b))) for a, b in m.junction_tree.tree.edges())})
    mc = os.path.join(ctx.work, "MC_PC.tla")
    with open(mc, "w") as f:
        f.write("---- MODULE MC_PC ----\nEXTENDS PairChain\nMCStructs == %s\n====\n" % to_tla(pstructs))
    rp = ctx.tlc(mc, "CONSTANTS\n  Structs <- MCStructs\nSPECIFICATION Spec\nINVARIANT ChainIdentity\nCHECK_DEADLOCK FALSE\n",
                 name="PairChain", workers=4, extra_modules=("query",), timeout=7200)
    if rp.violated:
        ctx.violation("the bulk-query recurrence does not hold on a junction tree built by the implementation (PairChain.tla)",
                      {"tlc": rp.trace_text()}, {"kind": "design"})
    # negative control: chain a-b, b-c, c-d potentials but tree {ab}-{cd}-{bc} (no running intersection)
    neg = [{"V": {"a", "b", "c", "d"}, "sz": {x: 2 for x in "abcd"},
            "pots": [{"at": ["a", "b"], "w": [2, 3, 5, 7]}, {"at": ["b", "c"], "w": [11, 13, 17, 19]}, {"at": ["c", "d"], "w": [23, 29, 31, 37]}],
            "N": {fs("ab"), fs("bc"), fs("cd")}, "T": {fs((fs("ab"), fs("cd"))), fs((fs("cd"), fs("bc")))}}]
    mc = os.path.join(ctx.work, "MC_PCneg.tla")
    with open(mc, "w") as f:
        f.write("---- MODULE MC_PCneg ----\nEXTENDS PairChain\nMCStructs == %s\n====\n" % to_tla(neg))
    rn = ctx.tlc(mc, "CONSTANTS\n  Structs <- MCStructs\nSPECIFICATION Spec\nINVARIANT ChainIdentity\nCHECK_DEADLOCK FALSE\n",
                 name="PairChain_negative_control", workers=1, extra_modules=("query",), expect_violation=True)
    if not rn.violated:
        raise MachineryError("negative control: PairChain identity held on a tree without running intersection (vacuous spec)")
    ctx.extra["negative_control"] = "ChainIdentity violated on a non-RIP tree, as required"

    # ---- spec -> code replay
    paths = {}
    rng.shuffle(emits)
    emits.sort(key=lambda e: 0 if any(h["call"]["k"] == "many" and len(h["call"]["list"]) > 8 for h in e["hist"]) else 1)   # exhaustive bulk queries first
    budget = 30000 if thorough else 2500
    for e in emits[:budget]:
        replay_history(ctx, cat[e["sid"] - 1], e, rng, paths)
    ctx.extra["path_coverage"] = paths
    for need in ("cache", "ve", "pair", "krondot", "datavector", "saveload", "synth", "reparam"):
        if not paths.get(need):
            raise MachineryError("query path never exercised: " + need)
    for e in emits:
        if len(e["hist"]) >= 2:
            ctx.sample({"history": [{"call": h["call"], "path": h["ans"]["path"]} for h in e["hist"]], "cached0": e["cached0"],
                        "structure": cat[e["sid"] - 1]["name"]})
            break
    ctx.assumptions += ["numpy backend only", "krondot is not claimed robust to huge potentials (np.exp(logZ))",
                        "float comparison 1e-9 relative against exact integer marginals"]


def replay_history(ctx, s, e, rng, paths):
    V = s["ord"]
    dom_order = V if rng.random() < 0.6 else list(reversed(V))
    total = rng.choice([1.0, 10.0, 3.5, 250.0, 2e-9, 3e-13])
    order = list(V)
    rng.shuffle(order)
    info = {"structure": s["name"], "cliques": s["cliques"], "sizes": s["sz"], "dom_order": dom_order, "elim_order": order,
            "total": total, "cached0": e["cached0"], "calls": [h["call"] for h in e["hist"]]}
    ctx.case((s["name"], tuple(dom_order), tuple(order), total, e["cached0"], json.dumps(info["calls"], sort_keys=True)),
             nontrivial=any(len(h["call"].get("seq", [])) >= 2 or h["call"]["k"] != "project" for h in e["hist"]))
    Z = e["Z"]
    state = {"Z": Z, "total": total, "pset": 1}
    aged = rng.random() < 0.4
    info["earlier_life_with_other_parameters"] = aged
    # the same joint written with potentials that each span far more than the range of exp() (+c x_a on one clique, -c x_a on a
    # neighbour): what long mirror-descent runs drift into. krondot is documented not to survive this and is skipped then.
    spread = rng.choice([0.0, 0.0, 0.0, 900.0]) if not any(h["call"]["k"] == "krondot" for h in e["hist"]) else 0.0
    info["cancelling_spread"] = spread
    try:
        m = build_model(s, order, dom_order, total)
        if aged:
            # the same object first lives with OTHER parameters (weights reversed, another total) and serves the same calls;
            # it is then re-parameterised the way the estimators do it (potentials, total and - if cached - marginals together)
            s_old = dict(s, pots=[dict(p_, w=list(reversed(p_["w"]))) for p_ in s["pots"]])
            m.total = total * 1.5 + 1.0
            m.potentials = potentials(m, s_old, set(), [0.1 * k for k in range(len(s["pots"]))])
            if e["cached0"]:
                m.marginals = m.belief_propagation(m.potentials)
            for h in e["hist"]:
                c = h["call"]
                if c["k"] == "project":
                    m.project(tuple(c["seq"])); m.project(list(c["seq"]))
                elif c["k"] == "many":
                    m.calculate_many_marginals([tuple(q) for q in c["list"]])
                    if not e["cached0"] and hasattr(m, "marginals"):
                        del m.marginals
                elif c["k"] == "krondot":
                    m.krondot([kmat(c["kinds"][a], s["sz"][a]) for a in m.domain.attrs])
                elif c["k"] == "datavector":
                    m.datavector()
            m.total = total
        newpot = potentials(m, s, set(), [0.3 * k for k in range(len(s["pots"]))], 1.0, spread)
        shiftsum = sum(0.3 * k for k in range(len(s["pots"])))
        if e["cached0"]:
            # the estimators' idiom (inference.py: mu = bp(theta); model.potentials = theta; model.marginals = mu)
            mu = m.belief_propagation(newpot)
            m.potentials = newpot
            m.marginals = mu
        else:
            m.potentials = newpot
    except Exception as ex:
        ctx.violation("model construction raised %r" % ex, info, {"kind": "crash"})
        return
    bad = []

    def cmp_factor(f, seq, ints, label):
        if tuple(f.domain.attrs) != tuple(seq):
            bad.append("%s: axes %s, requested %s" % (label, f.domain.attrs, tuple(seq)))
            return
        want = np.array(ints, dtype=float) * state["total"] / state["Z"]
        got = np.asarray(f.values, dtype=float).reshape(-1)
        if got.shape != want.shape or not np.all(np.isfinite(got)) or not np.allclose(got, want, rtol=1e-9 if not spread else 1e-7, atol=1e-12 * state["total"]):
            bad.append("%s = %s, joint marginal %s" % (label, got.tolist(), want.tolist()))
        elif abs(got.sum() - state["total"]) > 1e-9 * state["total"]:
            bad.append("%s sums to %r, total %r" % (label, got.sum(), state["total"]))

    for h in e["hist"]:
        c, ans = h["call"], h["ans"]
        try:
            if c["k"] == "project":
                seq = c["seq"]
                paths[ans["path"]] = paths.get(ans["path"], 0) + 1
                f = m.project(list(seq) if rng.random() < 0.5 else tuple(seq))
                cmp_factor(f, seq, ans["a"], "project(%s)" % (seq,))
                if bool(hasattr(m, "marginals")) != bool(h["cached"]):
                    ctx.deviation("cache state differs from ModelQuery.tla: hasattr(marginals)=%s, spec %s" % (hasattr(m, "marginals"), h["cached"]), info)
            elif c["k"] == "many":
                projs = [tuple(q) for q in c["list"]]
                res = m.calculate_many_marginals(projs)
                for q, a, pth in zip(projs, ans["a"], ans["path"]):
                    paths[pth] = paths.get(pth, 0) + 1
                    if q not in res:
                        bad.append("bulk answer for %s missing" % (q,))
                    else:
                        cmp_factor(res[q], q, a, "calculate_many_marginals[%s]" % (q,))
            elif c["k"] == "krondot":
                paths["krondot"] = paths.get("krondot", 0) + 1
                mats = [kmat(c["kinds"][a], s["sz"][a]) for a in m.domain.attrs]
                out = m.krondot(mats)
                rows = {a: mats[i].shape[0] for i, a in enumerate(m.domain.attrs)}
                got = to_order(np.asarray(out).reshape([rows[a] for a in m.domain.attrs]), list(m.domain.attrs), V)
                want = np.array(ans["a"], dtype=float) * state["total"] / state["Z"]
                if got.shape != want.shape or not np.allclose(got, want, rtol=1e-9, atol=1e-12 * state["total"]):
                    bad.append("krondot(%s) = %s, linear image of the joint %s" % (c["kinds"], got.tolist(), want.tolist()))
            elif c["k"] == "datavector":
                paths["datavector"] = paths.get("datavector", 0) + 1
                dv = m.datavector(flatten=False)
                got = to_order(dv, list(m.domain.attrs), V)
                want = np.array(ans["a"], dtype=float) * state["total"] / state["Z"]
                if tuple(dv.shape) != tuple(m.domain.shape) or not np.allclose(got, want, rtol=1e-9, atol=1e-12 * state["total"]):
                    bad.append("datavector = %s, joint %s" % (got.tolist(), want.tolist()))
                if not np.array_equal(m.datavector(), dv.reshape(-1)):
                    bad.append("datavector(flatten=True) != flatten of datavector(False)")
            elif c["k"] == "reparam":
                # ModelQuery.tla's Reparam: the other parameter set (weights reversed) and another total, installed the way the
                # estimators do it; cached marginals, if any, are re-derived by the caller
                paths["reparam"] = paths.get("reparam", 0) + 1
                state["pset"] = 3 - state["pset"]
                s_now = s if state["pset"] == 1 else dict(s, pots=[dict(p_, w=list(reversed(p_["w"]))) for p_ in s["pots"]])
                state["total"] = total if state["pset"] == 1 else total * 2.0 + 0.5
                state["Z"] = h["Z"]
                np_ = potentials(m, s_now, set(), [0.2 * k for k in range(len(s["pots"]))], 1.0, spread)
                m.total = state["total"]
                if hasattr(m, "marginals"):
                    mu = m.belief_propagation(np_)
                    m.potentials = np_
                    m.marginals = mu
                else:
                    m.potentials = np_
            elif c["k"] == "synth":
                paths["synth"] = paths.get("synth", 0) + 1
                np.random.seed(3)
                m.synthetic_data(rows=7, method="round")
            elif c["k"] == "saveload":
                paths["saveload"] = paths.get("saveload", 0) + 1
                fd, path = tempfile.mkstemp(dir=ctx.work, suffix=".pkl")
                os.close(fd)
                GraphicalModel.save(m, path)
                m = GraphicalModel.load(path)
                os.unlink(path)
        except Exception as ex:
            bad.append("%s raised %r" % (c["k"], ex))
            break
    if bad:
        ctx.violation("query answers differ from ModelQuery.tla: " + "; ".join(bad[:3]), info, {"kind": "query"})


def replay(ctx, path):
    print(json.dumps(json.load(open(path)), indent=1)[:3000])
    return 0
