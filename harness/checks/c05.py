"""C05 - mechanisms never spend more privacy than the (epsilon, delta) budget.

spec/dp/Ledger.tla (published budget arithmetic; AIM explored over every annealing history),
spec/dp/LedgerTrace.tla (ledgers of real lock-step runs on neighbouring datasets).
"""
import json, random
from ..core import MachineryError
from .. import trace as T
from .. import mechcheck as MC

AIM_CFG = ("CONSTANTS\n  Ds = {1, 2, 3, 4}\n  Ts = {4, 5, 6, 8, 12, 16, 32, 48, 64}\nINIT AIMInit\nNEXT AIMNext\nINVARIANT WithinBudget\n"
           "INVARIANT RemainderOK\nINVARIANT Progress\nCHECK_DEADLOCK FALSE\n")
AIM_NEG_CFG = ("CONSTANTS\n  Ds = {3}\n  Ts = {1}\nINIT AIMInit\nNEXT AIMNext\nINVARIANT WithinBudget\nCHECK_DEADLOCK FALSE\n")


def classify(sc):
    p = sc["params"]
    d = len(sc["attrs"])
    deff = len(set(a for c in p["workload"] for a in c)) if (sc["mech"] == "AIM" and p.get("workload")) else d
    if sc["mech"] == "AIM" and (p.get("rounds") or 16 * d) < 0.9 * deff:
        return {"mechanism": "AIM", "cond": "rounds<0.9d"}
    if sc["mech"] == "MWEM":
        return {"mechanism": "MWEM", "bounded": bool(p.get("bounded")), "noise": p.get("noise", "gaussian")}
    return {"mechanism": sc["mech"]}


def run(ctx, canary=False):
    rng = random.Random(ctx.seed)
    thorough = ctx.tier == "thorough"
    ctx.rule = ("TLC explores the AIM budget machine over every annealing history for d in 1..4, rounds in {4..64} (WithinBudget) with a "
                "negative control (rounds < 0.9 d); each mechanism (MST, AIM, MWEM+PGM gaussian/laplace bounded/unbounded, AdaGrid with/without "
                "targets and split strategies) is run under RNG interposition on seeded datasets (<= 6 records over 2x2, 2x2x2, 2x3x2 incl. "
                "empty and one-cell data) and on their neighbours (all add/remove-one, or replace-one for bounded; quick: 5 sampled per dataset) "
                "observing identical released values and selections; the resulting ledger (design charge from the logged noise scale, actual "
                "cost from the change of the operand / of the selection probabilities) is validated by LedgerTrace.tla. non-trivial = distinct "
                "(mechanism, parameters, dataset, neighbour)")
    r = ctx.tlc("dp/Ledger.tla", AIM_CFG, name="AIM_design", workers=8, coverage=True, timeout=3600)
    if r.violated:
        ctx.violation("design-level: %s violated in Ledger.tla (AIM, rounds >= 0.9 d)" % r.violated, {"tlc": r.trace_text()}, {"kind": "design"})
    rn = ctx.tlc("dp/Ledger.tla", AIM_NEG_CFG, name="AIM_design_rounds_below_0.9d", workers=1, expect_violation=True)
    ctx.extra["aim_design_rounds_lt_0.9d"] = "WithinBudget violated (design-level counterpart of finding F7)" if rn.violated else "holds"
    # unbounded d, rounds and annealing depth: Apalache discharges the inductive invariant of LedgerInd.tla
    obligations = [("Init => IndInv", ["--cinit=CInit", "--init=Init", "--inv=IndInv", "--length=0"]),
                   ("IndInv /\\ Next => IndInv'", ["--cinit=CInit", "--init=IndInit", "--inv=IndInv", "--length=1"]),
                   ("IndInv => WithinBudget", ["--cinit=CInit", "--init=IndInit", "--inv=WithinBudget", "--length=0"])]
    done = 0
    for label, args in obligations:
        v = ctx.apalache("dp/LedgerInd.tla", args, name="LedgerInd")
        if v != "ok":
            ctx.violation("design-level: Apalache refutes '%s' for the AIM budget machine (LedgerInd.tla)" % label, {"obligation": label}, {"kind": "design"})
        else:
            done += 1
    neg = ctx.apalache("dp/LedgerInd.tla", obligations[1][1], name="LedgerInd_negative_control", sed=(" /\\ 10 * T' >= 9 * d'", ""))
    if neg != "violated":
        raise MachineryError("negative control: without rounds >= 0.9 d the AIM invariant should be refuted")
    ctx.extra["apalache_inductive"] = {"module": "spec/dp/LedgerInd.tla", "obligations": len(obligations), "discharged": done,
                                       "unbounded": "attributes d, rounds T (10T >= 9d) and annealing depth arbitrary",
                                       "negative_control": "without rounds >= 0.9 d the invariant is refuted (finding F7)"}
    scs = MC.adversarial(rng) + MC.scenarios(rng, 160 if thorough else 28)
    jobs, results = MC.run_all(scs, None if thorough else 5, rng, far=True)
    traces = []
    for (sc, nb), res in zip(jobs, results):
        info = {"mechanism": sc["mech"], "params": sc["params"], "attrs": sc["attrs"], "sizes": sc["sizes"], "records": sc["records"], "seed": sc["seed"]}
        cls = classify(sc)
        if res["err1"]:
            ctx.case(json.dumps(info, sort_keys=True))
            ctx.violation("%s %s on the dataset itself" % (sc["mech"], res["err1"]), info, dict(cls, kind="crash"))
            continue
        dp = MC.design_params(sc)
        for pr in res["pairs"]:
            pinfo = dict(info, neighbour=pr["label"], spent_over_budget=pr["spent"], worst_primitive=pr["worst"])
            if pr.get("on_path"):
                pinfo.update(records=pr["base_records"], neighbour_records=pr["neighbour_records"], observations_recorded_on=sc["records"])
            ctx.case(json.dumps([info, pr["label"]], sort_keys=True), nontrivial=True)
            if pr["err2"] and not pr["err2"].startswith("diverged"):
                ctx.violation("%s on neighbour %s %s" % (sc["mech"], pr["label"], pr["err2"]), pinfo, dict(cls, kind="crash"))
                continue
            if pr["spent"] > 1 + 1e-6:
                ctx.violation("%s spends %.4f x its budget between D and neighbour %s (worst primitive: %s)" % (
                    sc["mech"], pr["spent"], pr["label"], pr["worst"]), pinfo, dict(cls, kind="overspend"))
            tr = dict(dp, events=pr["ledger_events"], info=pinfo, cls=cls)
            traces.append(tr)
    if canary:
        import copy
        can = []
        for t in traces[:40]:
            c = copy.deepcopy(t)
            rel = [i for i, e in enumerate(c["events"]) if e["k"] == "R"]
            if rel:
                c["events"][rel[-1]]["actual"] += c["events"][rel[-1]]["design"] + 50
                c["canary"] = "one release charged more than its design"
                can.append(c)
        traces = can
    tl = [{k: v for k, v in t.items() if k != "cls"} for t in traces]
    res = T.validate2(ctx, "dp/LedgerTrace.tla", MC.LEDGER_CFG, MC.LEDGER_CFG_LENIENT, tl, name="LedgerTrace", chunk=300, timeout=7200)
    for t, (ok, okl, reached, reachedl, ln) in zip(traces, res):
        if t.get("canary"):
            if ok:
                raise MachineryError("canary accepted: " + t["canary"])
        elif ok:
            ctx.traces_validated += 1
        elif okl:
            ctx.deviation("%s stays within its budget on this pair, but does not follow the published budget arithmetic of Ledger.tla "
                          "(primitive %d of %d: %s)" % (t["mech"], reached, len(t["events"]) - 1, t["events"][reached - 1] if reached <= len(t["events"]) else None),
                          {"info": t["info"]})
        else:
            reached = reachedl
            ev = t["events"][reached - 1] if reached <= len(t["events"]) else None
            ctx.violation("ledger of %s rejected by LedgerTrace.tla at primitive %d of %d (%s): the run does not follow the published budget "
                          "arithmetic or a primitive costs more than its charge" % (t["mech"], reached, len(t["events"]) - 1, ev),
                          {"info": t["info"], "design": {k: t[k] for k in ("d", "T", "a10", "n1", "r", "n3", "f", "fsum")}, "events": t["events"]},
                          dict(t["cls"], kind="ledger"))
    if traces:
        ctx.sample({"ledger trace": {k: traces[0][k] for k in ("mech", "d", "T")}, "events": traces[0]["events"][:5], "info": {k: traces[0]["info"][k] for k in ("params", "records", "neighbour")}})
    ctx.assumptions += ["autodp / hdmm replaced by documented stand-ins; csr_matrix.T made assignable (environment shims)",
                        "FactoredInference iterations capped at 25 inside the mechanisms (post-processing only)",
                        "the (epsilon, delta) -> rho conversion is the mechanism's own cdp_rho (checked by C07)",
                        "floating-point attacks on the samplers are out of scope"]


def replay(ctx, path):
    print(json.dumps(json.load(open(path)), indent=1)[:4000])
    return 0
