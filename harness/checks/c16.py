"""C16 - approximate marginal oracles are normalised, and exact on acyclic structures.

spec/approx/RegionGraph.tla (construction: regions, minimal parents, counting numbers, N/D/B, order),
spec/approx/GBP.tla (undamped parent-to-child fixed point exact on two-level RIP structures),
spec/approx/FactorGraphBP.tla (flooding BP exact on tree factor graphs after D* sweeps).
"""
import itertools, json, math, os, random
import numpy as np
import networkx as nx
from ..core import to_tla, MachineryError
from ..pgm import Domain, Factor, CliqueVector, fs, brute_joint, marg_of_joint
from mbi import RegionGraph, FactorGraph

RG_INVS = ["VarCount", "RegionCount", "SetsOK", "BeliefOK", "DBeforeUse"]
SZ = {"a": 2, "b": 3, "c": 2, "d": 2, "e": 2, "f": 2, "g": 2}


def small_w(n, k):
    return [1 + ((3 * i + 2 * k + i * i) % 3) for i in range(n)]


def spell(cl, rng):
    c = list(cl)
    rng.shuffle(c)
    return tuple(c)


def pots_for(cliques, sz):
    return [{"at": list(c), "w": small_w(math.prod(sz[a] for a in c), k)} for k, c in enumerate(cliques)]


def brute(attrs, sz, pots):
    joint = brute_joint(attrs, sz, [(p["at"], p["w"]) for p in pots])
    return joint, sum(joint.values())


def potentials_cv(model, dom, pots, extra=None):
    cv = CliqueVector.zeros(dom, model.cliques)
    for p in pots:
        key = tuple(p["at"])
        cv[key] = Factor(dom.project(key), np.log(np.array(p["w"], dtype=float)))
    return cv


def has_rip(cliques):
    cl = [fs(c) for c in cliques]
    if len(cl) <= 1:
        return True
    for edges in itertools.combinations(list(itertools.combinations(range(len(cl)), 2)), len(cl) - 1):
        g = nx.Graph(); g.add_nodes_from(range(len(cl))); g.add_edges_from(edges)
        if not nx.is_tree(g):
            continue
        ok = True
        for a in set().union(*cl):
            nodes = [i for i, c in enumerate(cl) if a in c]
            if not nx.is_connected(g.subgraph(nodes)):
                ok = False
                break
        if ok:
            return True
    return False


def run(ctx, canary=False):
    rng = random.Random(ctx.seed)
    thorough = ctx.tier == "thorough"
    ctx.rule = ("TLC checks RegionGraph.tla (valid counting numbers, disjoint N/D, references, D-before-use) for every antichain of cliques over "
                "3 attributes and over 4 attributes with <= %d cliques x every legal choice of pruned parents, and the real RegionGraph must "
                "reproduce regions / parents (one per class) / counting numbers / N, D, B / a size-ordered message list; GBP.tla shows the "
                "undamped fixed point exact on two-level RIP structures and FactorGraphBP.tla computes the first exact sweep D* on tree factor "
                "graphs; RegionGraph(convex=False, 200 sweeps) and FactorGraph(D*, D*+5, 25 sweeps) are compared with brute-force marginals "
                "(1e-8), per sweep through the callback; arbitrary clique sets x sweeps 1,2,25 x repeated calls are checked for finite, "
                "non-negative tables summing to the total. non-trivial = distinct (structure, oracle, sweeps)" % (4 if thorough else 3))
    # ---------------------------------------------------------------- construction
    mcfg = "CONSTANTS\n  CliqueSets <- %s\nSPECIFICATION Spec\n" + "\n".join("INVARIANT " + i for i in RG_INVS) + "\nCHECK_DEADLOCK FALSE\n"
    emits = []
    for cs in (["All3", "All4"] if thorough else ["All3", "All4small"]):
        r = ctx.tlc("approx/MC_RG.tla", mcfg % cs, name="RegionGraph_" + cs, workers=12, timeout=7200, coverage=(cs == "All3"))
        if r.violated:
            ctx.violation("design-level: %s violated in RegionGraph.tla" % r.violated, {"tlc": r.trace_text()}, {"kind": "design"})
        emits += r.emits
    bycl = {}
    for e in emits:
        bycl.setdefault(fs(fs(c) for c in e["cliques"]), []).append(e)
    for cset, es in bycl.items():
        attrs = sorted(set().union(*cset))
        dom = Domain(attrs, [SZ[a] for a in attrs])
        cliques = [spell(c, rng) for c in sorted(cset, key=sorted)]
        info = {"cliques": cliques}
        ctx.case(("rg", tuple(cliques)), nontrivial=len(cset) >= 2)
        try:
            rg = RegionGraph(dom, cliques, total=10.0, convex=False)
        except Exception as ex:
            ctx.violation("RegionGraph construction raised %r" % ex, info, {"kind": "crash"})
            continue
        bad = []
        regs = [fs(r_) for r_ in rg.regions]
        e0 = es[0]
        if len(set(regs)) != len(regs) or set(regs) != {fs(x) for x in e0["regions"]}:
            bad.append("regions %s, spec %s" % (sorted(map(sorted, regs)), sorted(map(sorted, e0["regions"]))))
        else:
            classes = {fs(c["r"]): [{fs(x) for x in cls} for cls in c["classes"]] for c in e0["classes"]}
            par = {fs(r_): {fs(p) for p in rg.parents[r_]} for r_ in rg.regions}
            for r_, ps in par.items():
                if len(ps) != len(classes[r_]) or any(len(ps & c) != 1 for c in classes[r_]):
                    bad.append("parents of %s are %s; spec: one from each of %s" % (sorted(r_), sorted(map(sorted, ps)), [sorted(map(sorted, c)) for c in classes[r_]]))
            for r_ in rg.regions:
                if {fs(c) for c in rg.children[r_]} != {q for q, ps in par.items() if fs(r_) in ps}:
                    bad.append("children of %s inconsistent with parents" % (r_,))
            cn = {fs(c["r"]): c["c"] for c in e0["counting"]}
            for r_ in rg.regions:
                if abs(rg.counting_numbers[r_] - cn[fs(r_)]) > 1e-12:
                    bad.append("counting number of %s is %r, Moebius value %r" % (r_, rg.counting_numbers[r_], cn[fs(r_)]))
            if not bad:
                match = [e for e in es if {fs(x["r"]): {fs(p) for p in x["p"]} for x in e["par"]} == par]
                if not match:
                    raise MachineryError("spec did not enumerate the implementation's (legal) parent choice")
                e = match[0]
                key = lambda m: (fs(m[0]), fs(m[1]))
                for name, got, want in (("N", rg.N, e["nset"]), ("D", rg.D, e["dset"])):
                    w = {key(x["m"]): {key(y) for y in x["s"]} for x in want}
                    g = {key(k_): {key(y) for y in v} for k_, v in got.items()}
                    if g != w:
                        bad.append("%s sets differ from the spec" % name)
                wb = {fs(x["r"]): {key(y) for y in x["s"]} for x in e["bset"]}
                gb = {fs(k_): {key(y) for y in v} for k_, v in rg.B.items()}
                if gb != wb:
                    bad.append("B sets differ from the spec")
                order = [key(m) for m in rg.message_order]
                allm = {key(x["m"]) for x in e["nset"]}
                if len(order) != len(set(order)) or set(order) != allm:
                    bad.append("message_order is not a permutation of the messages")
                elif any(len(order[i][0]) > len(order[i + 1][0]) for i in range(len(order) - 1)):
                    bad.append("message_order does not send from smaller regions first")
        if bad:
            # the construction is a model-level matter: C16 itself (normalisation, exactness) is decided numerically below on the
            # very same clique sets, so a different but working construction is a deviation, not a violation
            ctx.deviation("RegionGraph construction differs from RegionGraph.tla: " + "; ".join(bad[:3]), info)
    ctx.extra["clique_sets"] = len(bycl)

    # ---------------------------------------------------------------- exactness: GBP on RIP structures
    rip_sets = [sorted(map(sorted, cs)) for cs in bycl if len(cs) >= 2 and has_rip(cs)]
    two = []
    for cs in rip_sets:
        regs = set(map(fs, cs))
        inter = {a & b for a in regs for b in regs if a != b and a & b}
        if all(not any((x & y) and (x & y) not in inter | regs for x in inter for y in inter if x != y) and True for _ in [0]) and \
           all(not any(i < j for j in inter) for i in inter) and not (inter & regs):
            two.append(cs)
    gstructs = []
    for cs in two[: (60 if thorough else 24)]:
        attrs = sorted(set().union(*map(set, cs)))
        sz = {a: SZ[a] for a in attrs}
        gstructs.append({"V": set(attrs), "sz": sz, "pots": pots_for(cs, sz)})
    if gstructs:
        mc = os.path.join(ctx.work, "MC_GBP.tla")
        with open(mc, "w") as f:
            f.write("---- MODULE MC_GBP ----\nEXTENDS GBP\nMCStructs == %s\n====\n" % to_tla(gstructs))
        cfg = "CONSTANTS\n  Structs <- MCStructs\n  MaxSweeps = 8\nSPECIFICATION Spec\nINVARIANT InScope\nINVARIANT Exact\nCHECK_DEADLOCK FALSE\n"
        r = ctx.tlc(mc, cfg, name="GBP", workers=8, extra_modules=("approx",), timeout=7200)
        if r.violated:
            ctx.violation("design-level: %s violated in GBP.tla" % r.violated, {"tlc": r.trace_text()}, {"kind": "design"})
    extra_rip = [[["a", "b", "c"], ["b", "c", "d"], ["c", "d", "e"]], [["a", "b"], ["b", "c"], ["c", "d"], ["d", "e"]],
                 [["a", "b", "c"], ["a", "b", "d"], ["a", "b", "e"]], [["a", "b", "c", "d"], ["c", "d", "e"]],
                 # four nested region levels: abcd > bcd > cd > d
                 [["a", "b", "c", "d"], ["b", "c", "d", "e"], ["c", "d", "f"], ["d", "g"]],
                 [["a", "c", "d", "e"], ["c", "d", "e", "f"], ["d", "e", "g"], ["e", "b"]]]
    for cs in rip_sets + extra_rip:
        attrs = sorted(set().union(*map(set, cs)))
        sz = {a: SZ[a] for a in attrs}
        dom = Domain(attrs, [sz[a] for a in attrs])
        cliques = [spell(c, rng) for c in cs]
        pots = pots_for(cliques, sz)
        joint, Z = brute(attrs, sz, pots)
        total = rng.choice([1.0, 25.0])
        for on_sep in (False, True) if rng.random() < 0.3 else (False,):
            info = {"cliques": cliques, "sizes": sz, "total": total, "potential_on_separator": on_sep}
            ctx.case(("gbp", tuple(cliques), total, on_sep), nontrivial=True)
            try:
                # (the damping argument is part of the oracle's interface; exactness on these structures must hold for any value)
                rg = RegionGraph(dom, cliques, total=total, convex=False, iters=200, damping=rng.choice([0.5, 0.5, 0.02, 0.0, 0.9]))
                pv = potentials_cv(rg, dom, pots)
                tabs = list(pots)
                if on_sep:
                    seps = [r_ for r_ in rg.cliques if r_ not in [tuple(c) for c in cliques]]
                    if not seps:
                        continue
                    s_ = seps[0]
                    w = small_w(math.prod(sz[a] for a in s_), 7)
                    pv[s_] = Factor(dom.project(s_), np.log(np.array(w, dtype=float)))
                    tabs = pots + [{"at": list(s_), "w": w}]
                    joint2, Z2 = brute(attrs, sz, tabs)
                else:
                    joint2, Z2 = joint, Z
                with np.errstate(all="ignore"):
                    mu = rg.belief_propagation(pv)
            except Exception as ex:
                ctx.violation("generalised belief propagation raised %r" % ex, info, {"kind": "crash", "oracle": "approx"})
                continue
            bad = []
            for r_ in rg.cliques:
                got = np.asarray(mu[r_].values, dtype=float).reshape(-1)
                want = np.array(marg_of_joint(attrs, sz, joint2, list(r_)), dtype=float) * total / Z2
                if not np.all(np.isfinite(got)) or not np.allclose(got, want, rtol=1e-8, atol=1e-9 * total):
                    bad.append("region %s: %s, exact %s" % (r_, np.round(got, 6).tolist(), np.round(want, 6).tolist()))
            if bad:
                ctx.violation("GBP on a running-intersection clique set is not exact: " + "; ".join(bad[:2]), info,
                              {"kind": "not_exact", "oracle": "approx", "cond": "potential_on_nonmaximal" if on_sep else "maximal_only"})

    # ---------------------------------------------------------------- exactness: loopy BP on tree factor graphs
    trees = []
    V4 = ["a", "b", "c", "d"]
    cands = [c for r_ in (1, 2, 3) for c in itertools.combinations(V4, r_)]
    for k in (1, 2, 3, 4):
        for fset in itertools.combinations(cands, k):
            g = nx.Graph()
            for i, c in enumerate(fset):
                for v in c:
                    g.add_edge(("f", i), ("v", v))
            if g.number_of_nodes() and nx.is_forest(g):
                trees.append([list(c) for c in fset])
    rng.shuffle(trees)
    trees = trees[: (400 if thorough else 60)]
    fstructs = []
    for cs in trees:
        attrs = sorted(set().union(*map(set, cs)))
        sz = {a: SZ[a] for a in attrs}
        fstructs.append({"V": set(attrs), "sz": sz, "pots": pots_for(cs, sz), "nodes": len(attrs) + len(cs)})
    mc = os.path.join(ctx.work, "MC_FG.tla")
    with open(mc, "w") as f:
        f.write("---- MODULE MC_FG ----\nEXTENDS FactorGraphBP\nMCStructs == %s\n====\n" % to_tla(fstructs))
    cfg = "CONSTANTS\n  Structs <- MCStructs\n  MaxSweeps = 9\nSPECIFICATION Spec\nINVARIANT Emit\nINVARIANT ExactEventually\nCHECK_DEADLOCK FALSE\n"
    r = ctx.tlc(mc, cfg, name="FactorGraphBP", workers=12, extra_modules=("approx",), timeout=7200)
    if r.violated:
        ctx.violation("design-level: %s violated in FactorGraphBP.tla" % r.violated, {"tlc": r.trace_text()}, {"kind": "design"})
    dstar = {}
    flags = {}
    for e in r.emits:
        flags.setdefault(e["sid"], {})[e["k"]] = e["exact"]
        if e["exact"]:
            dstar[e["sid"]] = min(dstar.get(e["sid"], 99), e["k"])
    for sid_, fl in flags.items():
        ks = sorted(fl)
        if any(fl[a] and not fl[b] for a, b in zip(ks, ks[1:])):
            ctx.violation("design-level: flooding BP becomes inexact again after being exact (FactorGraphBP.tla, structure %d)" % sid_,
                          {"flags": fl}, {"kind": "design"})
    ctx.extra["max_Dstar"] = max(dstar.values()) if dstar else None
    for sid, cs in enumerate(trees, 1):
        if sid not in dstar:
            continue
        attrs = sorted(set().union(*map(set, cs)))
        sz = {a: SZ[a] for a in attrs}
        if sid % 2 == 0:
            # multi-character attribute names; the clique list and the potentials are built from EQUAL BUT DISTINCT string objects
            ren = lambda a: "attr_" + a
            attrs = [ren(a) for a in attrs]
            sz = {ren(a): v for a, v in sz.items()}
            cs = [[ren(a) for a in c] for c in cs]
        dom = Domain(attrs, [sz[a] for a in attrs])
        cliques = [tuple(c) for c in cs]
        pots = pots_for(cliques, sz)
        joint, Z = brute(attrs, sz, pots)
        total = rng.choice([1.0, 40.0])
        D = max(1, dstar[sid])
        for iters in (D, D + 5, 25):
            info = {"factors": cliques, "sizes": sz, "total": total, "sweeps": iters, "D_star": D}
            ctx.case(("lbp", tuple(cliques), iters, total), nontrivial=len(cliques) >= 2)
            try:
                fg = FactorGraph(dom, cliques, total=total, convex=False, iters=iters)
                fresh = lambda c: tuple(("%s" % a)[:0] + "".join(list(a)) for a in c)      # new string objects, same text
                pdom = Domain([fresh((a,))[0] for a in attrs], [sz[a] for a in attrs])
                pv = CliqueVector({fresh(c): Factor(pdom.project(fresh(c)), np.log(np.array(p["w"], dtype=float))) for c, p in zip(cliques, pots)})
                per = []
                with np.errstate(all="ignore"):
                    mu = fg.belief_propagation(pv, callback=lambda m: per.append({c: np.asarray(m[c].values, dtype=float).copy() for c in cliques}))
            except Exception as ex:
                ctx.violation("loopy belief propagation raised %r" % ex, info, {"kind": "crash", "oracle": "pairwise"})
                break
            bad = []
            for c in cliques:
                got = np.asarray(mu[c].values, dtype=float).reshape(-1)
                want = np.array(marg_of_joint(attrs, sz, joint, list(c)), dtype=float) * total / Z
                if not np.all(np.isfinite(got)) or not np.allclose(got, want, rtol=1e-8, atol=1e-9 * total):
                    bad.append("factor %s after %d sweeps: %s, exact %s" % (c, iters, np.round(got, 6).tolist(), np.round(want, 6).tolist()))
            if len(per) != iters:
                bad.append("callback called %d times for %d sweeps" % (len(per), iters))
            else:
                for k_, m in enumerate(per, 1):
                    ex_now = all(np.allclose(m[c].reshape(-1), np.array(marg_of_joint(attrs, sz, joint, list(c)), dtype=float) * total / Z, rtol=1e-8, atol=1e-9 * total) for c in cliques)
                    if k_ >= D and not ex_now:
                        bad.append("sweep %d: not exact although the spec is exact from sweep %d on" % (k_, D))
                        break
            if iters == 25 and not bad:
                # the estimators' use: ONE potentials object, installed on the oracle and then changed in place between calls
                try:
                    fg2 = FactorGraph(dom, cliques, total=total, convex=False, iters=25)
                    theta = CliqueVector({c: Factor(dom.project(c), np.log(np.array(list(reversed(p["w"])), dtype=float))) for c, p in zip(cliques, pots)})
                    with np.errstate(all="ignore"):
                        mu_old = fg2.belief_propagation(theta)
                        fg2.potentials, fg2.marginals = theta, mu_old
                        for c, p in zip(cliques, pots):
                            theta[c] = Factor(dom.project(c), np.log(np.array(p["w"], dtype=float)))
                        mu2 = fg2.belief_propagation(theta)
                    for c in cliques:
                        got = np.asarray(mu2[c].values, dtype=float).reshape(-1)
                        want = np.array(marg_of_joint(attrs, sz, joint, list(c)), dtype=float) * total / Z
                        if not np.all(np.isfinite(got)) or not np.allclose(got, want, rtol=1e-8, atol=1e-9 * total):
                            bad.append("second call with the same potentials object changed in place, factor %s: %s, exact %s" % (c, np.round(got, 6).tolist(), np.round(want, 6).tolist()))
                            break
                except Exception as ex:
                    bad.append("second call with the same potentials object raised %r" % ex)
            if bad:
                ctx.violation("loopy BP on a tree factor graph is not exact: " + "; ".join(bad[:2]), info, {"kind": "not_exact", "oracle": "pairwise"})

    # ---------------------------------------------------------------- normalisation on arbitrary clique sets
    nnorm = 600 if thorough else 90
    for _ in range(nnorm):
        n = rng.choice([3, 4, 5])
        attrs = list("abcde"[:n])
        sz = {a: rng.choice([1, 2, 3]) for a in attrs}
        dom = Domain(attrs, [sz[a] for a in attrs])
        k = rng.randint(1, 5)
        cliques = list(dict.fromkeys(tuple(rng.sample(attrs, rng.randint(1, min(3, n)))) for _ in range(k)))
        total = rng.choice([1.0, 7.5, 1000.0])
        sweeps = rng.choice([1, 2, 25])
        oracle = rng.choice(["approx", "pairwise", "convex"])
        info = {"cliques": cliques, "sizes": sz, "total": total, "sweeps": sweeps, "oracle": oracle}
        ctx.case(("norm", json.dumps(info, sort_keys=True)), nontrivial=len(cliques) >= 2)
        try:
            if oracle == "pairwise":
                model = FactorGraph(dom, cliques, total=total, convex=False, iters=sweeps)
                keys = cliques
            else:
                model = RegionGraph(dom, cliques, total=total, convex=(oracle == "convex"), iters=sweeps)
                keys = model.cliques
            bad = []
            if rng.random() < 0.35:
                # LocalInference assigns model.total on an oracle object it is handed (local_inference.py:217)
                total = total * rng.choice([0.5, 3.0])
                model.total = total
                info["total_reassigned_to"] = total
            mag = rng.choice([1.0, 1.0, 400.0, 1000.0])       # log-potentials far outside the range of exp(), in conflict between regions
            info["potential_scale"] = mag
            # structural zeros reach the oracles as -inf log-potentials (LocalInference(structural_zeros=...)): single cells, or a
            # whole value of one attribute of an input clique ("slice")
            minf = rng.choice(["", "", "", "cell", "slice"]) if mag == 1.0 else ""
            info["minus_inf"] = minf
            for call in range(2):       # messages persist between calls: the second call starts warm
                pv = CliqueVector({c: Factor(dom.project(c), mag * np.array([rng.uniform(-3, 3) for _ in range(dom.size(c))])) for c in keys})
                if minf:
                    tgt = [c for c in keys if len(c) >= 2 and any(set(c) == set(q) for q in cliques) and dom.size(c) >= 4 and dom.project(c).shape[1] >= 2]
                    if tgt:
                        arr = pv[tgt[0]].values
                        if minf == "cell":
                            arr[(0,) * arr.ndim] = -np.inf
                        else:
                            arr[(slice(None), 0) + (slice(None),) * (arr.ndim - 2)] = -np.inf
                with np.errstate(all="ignore"):
                    mu = model.belief_propagation(pv)
                for c in keys:
                    v = np.asarray(mu[c].values, dtype=float)
                    if not np.all(np.isfinite(v)) or v.min() < 0 or abs(v.sum() - total) > 1e-8 * total:
                        bad.append("call %d, region %s: min %r sum %r (total %r)" % (call + 1, c, float(np.nanmin(v)), float(np.nansum(v)), total))
                        break
        except Exception as ex:
            ctx.violation("approximate oracle raised %r" % ex, info, {"kind": "crash", "oracle": oracle})
            continue
        if bad:
            ctx.violation("pseudo-marginals are not normalised: " + "; ".join(bad[:2]), info, {"kind": "normalisation", "oracle": oracle, "has_minus_inf": bool(info.get("minus_inf"))})
    ctx.sample({"tree factor graph": trees[0] if trees else None, "D_star": dstar.get(1)})
    ctx.assumptions += ["convex FactorGraph (pairwise-convex) needs cvxopt: excluded", "GBP.tla covers two-level RIP structures; multi-level RIP "
                        "structures are compared numerically only", "200 damped sweeps stand for the fixed point (error halves per sweep)"]


def replay(ctx, path):
    print(json.dumps(json.load(open(path)), indent=1)[:3000])
    return 0
