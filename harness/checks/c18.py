"""C18 - approximate estimation is valid, and exact when nothing is relaxed.

spec/approx/LocalMD.tla (restart/damping controller over every loss-trajectory pattern; NoCrash),
spec/approx/LocalTrace.tla (hook H4 streams); exactness on disjoint cliques against FactoredInference and the C03 gap bound.
"""
import json, math, multiprocessing, random
import numpy as np
from ..core import MachineryError
from .. import trace as T
from .. import est as E
from ..pgm import Domain
from mbi import LocalInference, FactoredInference

GUARD = "TRUE"      # the oracle's damping field is only touched when it exists (after the fix of F5)
MODEL_CFG = ("CONSTANTS\n  Oracles = {\"convex\", \"approx\", \"pairwise\"}\n  ItersSet = {1, 2, 51, 52, 60}\n  MaxDepth = 3\n  GuardDamping = %s\n"
             "SPECIFICATION Spec\nINVARIANT NoCrash\nINVARIANT RestoredOnRestart\nCHECK_DEADLOCK FALSE\n")
HAZARD_CFG = ("CONSTANTS\n  Oracles = {\"convex\"}\n  ItersSet = {2}\n  MaxDepth = 3\n  GuardDamping = TRUE\nSPECIFICATION Spec\nINVARIANT RestartHazard\nCHECK_DEADLOCK FALSE\n")
TRACE_CFG = ("CONSTANTS\n  Oracles = {}\n  ItersSet = {}\n  MaxDepth = 100000\n  GuardDamping = %s\nSPECIFICATION TraceSpec\nCONSTRAINT Marker\nPOSTCONDITION Post2\n"
             "CHECK_DEADLOCK FALSE\n")


def halvings(a0, a):
    """log2(a0 / a) as an integer; 99999 when the step size has underflowed."""
    if not (a > 0):
        return 99999
    with np.errstate(all="ignore"):
        r = np.float64(a0) / np.float64(a)
    return int(round(math.log2(r))) if np.isfinite(r) and r > 0 else 99999


def to_trace(events, oracle, iters):
    out = []
    halv = 0
    alpha0 = None
    last_mu = None
    for k, f in events:
        if k == "lmd.start":
            if alpha0 is None:
                alpha0 = f["alpha"]
            halv = halvings(alpha0, f["alpha"])
            out.append({"k": "start", "halvings": halv})
        elif k == "lmd.iter":
            h = halvings(alpha0, f["alpha"])
            out.append({"k": "iter", "t": f["t"], "up": bool(f["l"] > f["prev_l"]), "halvings": h})
            cur_alpha = f["alpha"]
        elif k == "lmd.restart":
            out.append({"k": "restart", "pot_restored": bool(f["pot_restored"]), "msg_restored": bool(f["msg_restored"]),
                        "halved": bool(f["new_alpha"] == cur_alpha / 2)})
        elif k == "lmd.damp":
            out.append({"k": "damp", "halved": bool(f["alpha"] == cur_alpha / 2)})
        elif k == "lmd.post":
            out.append({"k": "post", "feasible": bool(f["feas"] < 1.0)})
        elif k == "lmd.return":
            out.append({"k": "return", "is_last": True})
    return {"oracle": oracle, "iters": iters, "events": out}


def worker(job):
    inst, oracle, iters, mode = job[:4]
    res = {"oracle": oracle, "iters": iters}
    try:
        dom = E.domain_of(inst)
        meas = E.measurements(inst, "dense")
        total = float(sum(inst["x"])) if mode not in ("estimated", "exact_est") else None
        eng = LocalInference(dom, iters=iters, marginal_oracle=oracle)
        if len(job) > 4 and job[4]:
            # an earlier call on the same object that measured the same cliques with other answers must not matter
            prior = dict(inst, meas=[dict(m, y=[v + 4.0 * ((i % 3) - 1) for i, v in enumerate(m["y"])]) for m in inst["meas"]])
            eng.iters = 20
            with np.errstate(all="ignore"):
                eng.estimate(E.measurements(prior, "dense"), total=total)
            eng.iters = iters
        with np.errstate(all="ignore"), E.traced(("lmd.",)) as ev:
            model = eng.estimate(meas, total=total)
        res["trace"] = to_trace(list(ev), oracle, iters)
        res["depth"] = sum(1 for k, f in ev if k == "lmd.restart")
        tot = float(model.total)
        bad = []
        tables = {}
        with np.errstate(all="ignore"):
            for m in inst["meas"]:
                cl = tuple(m["proj"])
                v = np.asarray(model.project(cl).values, dtype=float)
                tables[cl] = v
                if not np.all(np.isfinite(v)):
                    bad.append("table on %s is not finite" % (cl,))
                elif v.min() < -1e-9 * tot:
                    bad.append("table on %s has negative mass %g" % (cl, v.min()))
                elif abs(v.sum() - tot) > 1e-6 * tot:
                    bad.append("table on %s sums to %r, total %r" % (cl, float(v.sum()), tot))
            # fit vs the uniform start
            loss = l0 = 0.0
            for (Q, y, noise, proj) in meas:
                x = tables[tuple(proj)].reshape(-1)
                u = np.full(x.size, tot / x.size)
                loss += 0.5 * float(((Q @ x - y) ** 2).sum()) / noise ** 2
                l0 += 0.5 * float(((Q @ u - y) ** 2).sum()) / noise ** 2
            res["loss"], res["l0"] = loss, l0
            if oracle == "convex" and not bad:
                # overlapping tables agree up to the tolerance the estimator enforces: the L1 mismatch between a region's table
                # and each of its sub-regions' tables, averaged over the region-graph edges, is below 1 (local_inference.py:115).
                # Recomputed here from the returned tables with plain numpy (not with the model's own primal_feasibility).
                tot_mis, cnt = 0.0, 0
                for r_, kids in model.children.items():
                    for s_ in kids:
                        tr = np.asarray(model.marginals[r_].values, dtype=float)
                        ts = np.asarray(model.marginals[s_].values, dtype=float)
                        keep = [x for x in r_ if x in s_]
                        mr = tr.sum(axis=tuple(j for j, x in enumerate(r_) if x not in s_))
                        mr = np.transpose(mr, [keep.index(x) for x in s_])
                        tot_mis += float(np.abs(mr - ts).sum())
                        cnt += 1
                res["mismatch"] = tot_mis / cnt if cnt else 0.0
                # the same agreement judged WITHOUT the model's own edge list: regions are the intersection closure of the measured
                # cliques, Hasse edges are recomputed here. If the average mismatch over the estimator's (minimal) edges is below 1,
                # any region's table and any sub-region's table differ by less than the number of Hasse edges (L1 contraction along a path).
                regs = set(tuple(m["proj"]) for m in inst["meas"])
                grew = True
                while grew:
                    grew = False
                    for r1 in list(regs):
                        for r2 in list(regs):
                            z = set(r1) & set(r2)
                            if z and not any(set(q) == z for q in regs):
                                regs.add(tuple(sorted(z))); grew = True
                rset = {frozenset(q) for q in regs}
                keys = list(model.marginals.keys())           # the same attribute set may occur twice (measured in two orders)
                ksets = [frozenset(k_) for k_ in keys]
                hasse = sum(1 for r1 in ksets for r2 in ksets if r2 < r1 and not any(r2 < r3 < r1 for r3 in ksets))
                worst = 0.0
                if set(ksets) != rset:
                    bad.append("regions %s are not the intersection closure of the measured cliques" % sorted(map(sorted, set(ksets))))
                else:
                    for k1 in keys:
                        for k2 in keys:
                            if frozenset(k2) < frozenset(k1):
                                t1 = np.asarray(model.marginals[k1].values, dtype=float)
                                t2 = np.asarray(model.marginals[k2].values, dtype=float)
                                m1 = t1.sum(axis=tuple(j for j, x in enumerate(k1) if x not in k2))
                                keep = [x for x in k1 if x in k2]
                                m1 = np.transpose(m1, [keep.index(x) for x in k2])
                                worst = max(worst, float(np.abs(m1 - t2).sum()))
                res["pair_mismatch"], res["hasse_edges"] = worst, hasse
        res["bad"] = bad
        res["total"] = tot
        if mode in ("exact", "exact_est"):
            ex = E.quiet(FactoredInference(dom, iters=3000).estimate, meas, total=total)
            res["exact_loss"] = E.l2_loss_of_model(ex, meas)
            res["exact_total"] = float(ex.total)
            # "attains the same optimum" is a statement about the limit: a run that is still short of it gets four and then
            # sixteen times the iterations (on a fresh engine) before it is judged
            for mult in (4, 16):
                if not (res["loss"] > res["exact_loss"] + 1e-3 * max(1.0, res["l0"] - res["exact_loss"])) or bad:
                    break
                eng_l = LocalInference(dom, iters=iters * mult, marginal_oracle=oracle)
                with np.errstate(all="ignore"):
                    model_l = eng_l.estimate(meas, total=total)
                loss_l = 0.0
                for (Q, y, noise, proj) in meas:
                    x = np.asarray(model_l.project(tuple(proj)).values, dtype=float).reshape(-1)
                    loss_l += 0.5 * float(((Q @ x - y) ** 2).sum()) / noise ** 2
                res["loss"], res["iters_used"] = loss_l, iters * mult
    except RecursionError as ex:
        res["crash"] = "RecursionError (unbounded restart chain)"
    except Exception as ex:
        res["crash"] = repr(ex)
    return res


def nested_instance(rng, triples=False):
    """Three-level region graphs with a large total: A, AB, ABC or ABC, ABD, ACD."""
    inst = E.gen_instance(rng, nattr=4, max_meas=0, zeros_prob=0.0, allow_empty=True, sizes=[2, 2, 3, 2])
    inst["x"] = [25.0 * v + 5 for v in inst["x"]]
    a = inst["order"]
    groups = rng.choice([[(a[0],), (a[0], a[1]), (a[0], a[1], a[2])], [(a[0], a[1], a[2]), (a[0], a[1], a[3]), (a[0], a[2], a[3])],
                         [(a[0], a[1], a[2]), (a[1], a[2], a[3]), (a[2], a[3], a[0])]])
    if triples or rng.random() < 0.5:
        # a region with one parent that is itself an intersection and one that is a measured clique (five attributes)
        inst = E.gen_instance(rng, nattr=5, max_meas=0, zeros_prob=0.0, allow_empty=True, sizes=[2, 2, 2, 2, 2])
        inst["x"] = [30.0 * v + 5 for v in inst["x"]]
        a = inst["order"]
        groups = rng.choice([[(a[0], a[1], a[2]), (a[0], a[1], a[3]), (a[1], a[2], a[4])],
                             [(a[0], a[1], a[2]), (a[1], a[2], a[3]), (a[1], a[4])],
                             [(a[0], a[1], a[2]), (a[0], a[1], a[3]), (a[1], a[4])],
                             [(a[0], a[1], a[2]), (a[1], a[2], a[3]), (a[2], a[4]), (a[0], a[4])],
                             [(a[2], a[0], a[1]), (a[3], a[1], a[0]), (a[4], a[0])]])
        if triples:
            groups = [(a[0], a[1], a[2]), (a[0], a[1], a[3]), (a[1], a[2], a[4])]      # an intersection of intersections loses a parent
    for g in groups:
        noise = rng.choice([1.0, 5.0])
        Q = E.qmat("identity", math.prod(inst["sz"][x] for x in g))
        y = Q @ E.true_marginal(inst, list(g)).reshape(-1) + np.array([rng.gauss(0, noise) for _ in range(Q.shape[0])])
        inst["meas"].append({"proj": list(g), "kind": "identity", "noise": noise, "y": [float(v) for v in y]})
    return inst


def nested_accurate_instance(rng):
    """A measured sub-clique inside a measured clique, the small one answered far more accurately than the big one and close to
    uniform: uniform tables already fit the accurate measurement, so an estimator that loses it (and chases the noisy one) ends
    up fitting worse than its uniform start."""
    inst = E.gen_instance(rng, nattr=3, max_meas=0, zeros_prob=0.0, allow_empty=True, sizes=[4, 4, 2])
    a = inst["order"]
    n = len(inst["x"])
    inst["x"] = [30.0 + rng.choice([-1.0, 0.0, 1.0]) for _ in range(n)]            # nearly uniform data, total about 960
    big, small = (a[0], a[1]), (a[rng.choice([0, 1])],)
    for g, noise in ((big, 40.0), (small, 0.2)):
        Q = E.qmat("identity", math.prod(inst["sz"][x] for x in g))
        y = Q @ E.true_marginal(inst, list(g)).reshape(-1) + np.array([rng.gauss(0, noise) for _ in range(Q.shape[0])])
        inst["meas"].append({"proj": list(g), "kind": "identity", "noise": noise, "y": [float(v) for v in y]})
    if rng.random() < 0.5:
        inst["meas"].reverse()
    return inst


def disjoint_instance(rng):
    inst = E.gen_instance(rng, nattr=4, max_meas=0, zeros_prob=0.0, allow_empty=True, sizes=[rng.choice([2, 3]) for _ in range(4)])
    a = inst["order"]
    groups = rng.choice([[(a[0], a[1]), (a[2], a[3])], [(a[0],), (a[1], a[2])], [(a[0], a[1], a[2]), (a[3],)], [(a[1], a[0])]])
    for g in groups:
        kind = rng.choice(["identity", "id+total", "twice"])
        noise = rng.choice([0.5, 1.0, 2.0])
        m = {"proj": list(g), "kind": kind, "noise": noise}
        Q = E.qmat(kind, math.prod(inst["sz"][x] for x in g))
        y = Q @ E.true_marginal(inst, list(g)).reshape(-1) + np.array([rng.gauss(0, noise) for _ in range(Q.shape[0])])
        m["y"] = [float(v) for v in y]
        inst["meas"].append(m)
    if rng.random() < 0.5:
        # one clique of the family measured again at a very different noise level (what AIM does when it re-selects a marginal)
        m0 = rng.choice(inst["meas"])
        noise = m0["noise"] * 8.0      # (a much MORE precise repeat only slows convergence down: the fixed iteration budget would decide)
        Q = E.qmat("identity", math.prod(inst["sz"][x] for x in m0["proj"]))
        y = Q @ E.true_marginal(inst, list(m0["proj"])).reshape(-1) + np.array([rng.gauss(0, noise) for _ in range(Q.shape[0])])
        inst["meas"].append({"proj": list(m0["proj"]), "kind": "identity", "noise": noise, "y": [float(v) for v in y]})
    return inst


def run(ctx, canary=False):
    rng = random.Random(ctx.seed)
    thorough = ctx.tier == "thorough"
    ctx.rule = ("TLC explores LocalMD.tla over every loss-trajectory pattern for iteration counts {1,2,51,52,60} x three oracles (NoCrash, "
                "RestoredOnRestart; the unbounded restart chain is exhibited as a hazard); LocalInference.estimate is run for every oracle on "
                "overlapping / cyclic / nested / disjoint measurement sets with iteration counts 1,5,60,200, totals given / estimated: no "
                "exception, every measured clique's table finite, non-negative, summing to the total, fit no worse than uniform, convex-oracle "
                "tables agreeing within the enforced feasibility tolerance; on disjoint families the loss must match FactoredInference's "
                "(3000 iterations). Hook-H4 streams are validated by LocalTrace.tla. non-trivial = distinct (instance, oracle, iterations)")
    r = ctx.tlc("approx/LocalMD.tla", MODEL_CFG % GUARD, name="LocalMD", workers=4, coverage=True, timeout=3600)
    if r.violated:
        ctx.violation("design-level: %s violated in LocalMD.tla" % r.violated, {"tlc": r.trace_text()}, {"kind": "design"})
    rh = ctx.tlc("approx/LocalMD.tla", HAZARD_CFG, name="LocalMD_restart_hazard", workers=1, expect_violation=True)
    ctx.extra["restart_hazard"] = "design allows a restart at every depth (no bound); max observed depth is reported below" if rh.violated else "bounded"
    jobs, meta = [], []
    n = 420 if thorough else 54
    for k in range(n):
        oracle = ["convex", "approx", "pairwise"][k % 3]
        second = False
        if k % 4 == 3:
            inst, mode = disjoint_instance(rng), rng.choice(["exact", "exact", "exact_est"])
            iters = 1500 if not thorough else 3000
            second = rng.random() < 0.5
        elif k % 8 == 0:
            # three-level region graphs: mostly the convex oracle (agreement clause), every third time one of the others
            other = (k // 8) % 3 == 0
            inst, mode, oracle, iters = nested_instance(rng, triples=other), "given", ("convex" if not other else ["approx", "pairwise"][(k // 24) % 2]), 200
        elif k % 8 == 1:
            inst, mode, iters = nested_accurate_instance(rng), "given", 200
        elif k % 16 == 2:
            # tens of millions of records measured with unit noise on small disjoint tables: the first step sizes are far too
            # large, the controller has to restart many times before it finds one that works
            inst, mode = disjoint_instance(rng), "exact"
            inst = dict(inst, x=[v * 3e6 for v in inst["x"]], meas=[dict(m_, y=[v * 3e6 for v in m_["y"]]) for m_ in inst["meas"]])
            iters = 1500
        else:
            inst = E.gen_instance(rng, nattr=rng.choice([3, 4]), max_meas=4, zeros_prob=0.0, allow_empty=False,
                                  kinds=["identity", "none", "twice", "total", "id+total", "prefix"])
            mode = rng.choice(["given", "estimated"])
            iters = rng.choice([1, 5, 60, 200])
        jobs.append((inst, oracle, iters, mode, second)); meta.append((inst, oracle, iters, mode))
    with multiprocessing.get_context("fork").Pool(16) as pool:
        results = pool.map(worker, jobs, chunksize=1)
    traces = []
    maxdepth = 0
    worst_excess = 0.0
    for (inst, oracle, iters, mode), res in zip(meta, results):
        info = {"instance": {k: inst[k] for k in ("order", "sz", "x", "meas")}, "oracle": oracle, "iters": iters, "mode": mode}
        ctx.case(json.dumps(info, sort_keys=True), nontrivial=True)
        if "crash" in res:
            ctx.violation("LocalInference.estimate (oracle %s, %d iterations) raised %s" % (oracle, iters, res["crash"]), info,
                          {"kind": "crash", "oracle": oracle, "damping": "damping" in res["crash"], "recursion": "RecursionError" in res["crash"]})
            continue
        maxdepth = max(maxdepth, res["depth"])
        info.update(loss=res.get("loss"), uniform_loss=res.get("l0"))
        if res["bad"]:
            ctx.violation("approximate estimation returned an invalid table: " + "; ".join(res["bad"][:3]), info, {"kind": "invalid", "oracle": oracle})
            continue
        if res["loss"] > res["l0"] * (1 + 1e-9) + 1e-9:
            ctx.violation("fit after %d iteration(s) with oracle %s is worse than the uniform start: loss %r vs %r" % (iters, oracle, res["loss"], res["l0"]),
                          info, {"kind": "worse_than_uniform", "oracle": oracle, "iters": iters, "few_iters": bool(iters <= 50)})
        if oracle == "convex" and res.get("mismatch", 0.0) >= 1.0 + 1e-9:
            ctx.violation("convex oracle: overlapping tables disagree by %r (L1, averaged over region-graph edges); the estimator enforces < 1" % res["mismatch"], info,
                          {"kind": "infeasible", "oracle": oracle})
        if oracle == "convex" and res.get("pair_mismatch", 0.0) >= res.get("hasse_edges", 0) + 1e-9 and res.get("pair_mismatch", 0.0) >= 1.0:
            ctx.violation("convex oracle: a region's table and a sub-region's table disagree by %r (L1), more than the enforced tolerance allows over "
                          "the %d edges of the region poset" % (res["pair_mismatch"], res["hasse_edges"]), info, {"kind": "infeasible", "oracle": oracle})
        if mode in ("exact", "exact_est"):
            if abs(res["total"] - res["exact_total"]) > 1e-8 * max(1.0, abs(res["exact_total"])):
                ctx.violation("disjoint cliques: approximate estimation settles on total %r, exact estimation on %r" % (res["total"], res["exact_total"]),
                              info, {"kind": "not_exact", "oracle": oracle})
                continue
            ex = res["exact_loss"]
            exc = (res["loss"] - ex) / max(1.0, res["l0"] - ex)
            worst_excess = max(worst_excess, exc)
            if res["loss"] > ex + 1e-3 * max(1.0, res["l0"] - ex):
                ctx.violation("disjoint cliques: oracle %s reaches loss %r, exact estimation %r (uniform %r)" % (oracle, res["loss"], ex, res["l0"]),
                              info, {"kind": "not_exact", "oracle": oracle})
            if res["loss"] < ex - 1e-6 * max(1.0, ex):
                ctx.violation("disjoint cliques: oracle %s reports loss %r BELOW the exact optimum %r" % (oracle, res["loss"], ex), info,
                              {"kind": "below_optimum", "oracle": oracle})
        if any(e_.get("halvings") == 99999 for e_ in res["trace"]["events"]):
            # the step size underflowed (thousands of late halvings): not expressible in the trace encoding, nothing to validate
            ctx.extra["traces_with_underflowed_step"] = ctx.extra.get("traces_with_underflowed_step", 0) + 1
        elif len(traces) < (300 if thorough else 50):
            t = res["trace"]
            t["info"] = {"oracle": oracle, "iters": iters}
            traces.append(t)
    ctx.extra["max_restart_depth_observed"] = maxdepth
    ctx.extra["worst_relative_excess_on_disjoint"] = worst_excess
    if canary:
        import copy
        can = []
        for t in traces:
            it = [i for i, e in enumerate(t["events"]) if e["k"] == "iter"]
            if len(it) >= 2:
                c = copy.deepcopy(t)
                c["events"][it[1]]["up"] = not c["events"][it[1]]["up"]
                c["canary"] = "loss comparison flipped"
                can.append(c)
        traces = can[:40]
    res = T.validate(ctx, "approx/LocalTrace.tla", TRACE_CFG % GUARD, traces, name="LocalTrace", chunk=60, timeout=7200)
    for t, (ok, reached, ln) in zip(traces, res):
        if t.get("canary"):
            if ok:
                raise MachineryError("canary accepted: " + t["canary"])
        elif ok:
            ctx.traces_validated += 1
        else:
            # every clause of C18 (no error, valid tables, fit, feasibility, exactness) was decided on this very run above;
            # the controller model is more precise than the property
            ctx.deviation("run is not a behaviour of LocalMD.tla: " + T.describe_reject(t, reached), {"info": t["info"], "near": t["events"][max(0, reached - 3):reached + 1]})
    if traces:
        ctx.sample({"H4 trace": traces[0]["info"], "events": traces[0]["events"][:6]})
    ctx.assumptions += ["pairwise-convex oracle needs cvxopt (absent): not covered", "exactness judged after a fixed iteration budget",
                        "the convex-oracle agreement bound is the estimator's own (average L1 mismatch below 1)"]


def replay(ctx, path):
    print(json.dumps(json.load(open(path)), indent=1)[:3000])
    return 0
