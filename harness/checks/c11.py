"""C11 - synthetic records faithfully realise the model.

spec/synth/Synthetic.tla (Separation, CondFaithful for every structure x elimination order; apportionment),
spec/synth/SynthTrace.tla (hook H3 traces: conditioning sets, conditioning weights, apportionment outcomes).
"""
import itertools, json, math, os, random
import numpy as np
from ..core import to_tla, MachineryError, TSet
from .. import trace as T
from ..pgm import Domain, GraphicalModel, fs, LETTERS, tracing, near_int, to_order, brute_joint, marg_of_joint
from .c01 import catalogue, build_model, potentials


def apportion_problems(df, model, s, V, joint):
    """Round mode, judged on the whole table (not per call of the rounding routine): column by column in generation order, inside
    every group of records that agree on the column's conditioning attributes, the count of each value is within 2 of
    (group size) x P(value | group) - one unit of rounding plus one for an exact integer seen as k - 1e-16 in floating point.
    The allowance does not depend on the number of rows."""
    order = list(model.elimination_order)[::-1]
    cl = [set(c) for c in model.cliques]
    used = []
    for col in order:
        rel = [a for a in used if a in set().union(*[c for c in cl if col in c])]
        used.append(col)
        keys = rel + [col]
        m = np.array(marg_of_joint(V, s["sz"], joint, keys), dtype=object).reshape([s["sz"][a] for a in keys])
        cnt = np.zeros([s["sz"][a] for a in keys], dtype=np.int64)
        if len(df):
            np.add.at(cnt, tuple(df[a].values for a in keys), 1)
        gshape = tuple(s["sz"][a] for a in rel)
        gsize = np.asarray(cnt.sum(axis=-1)).reshape(gshape)
        gw = np.empty(gshape, dtype=object)
        for g in np.ndindex(*gshape):
            gw[g] = sum(int(m[g + (v,)]) for v in range(s["sz"][col]))
        for g in np.ndindex(*gshape):
            n_g, w_g = int(gsize[g]), int(gw[g])
            if n_g == 0:
                continue
            if w_g == 0:
                return "%d records in the impossible group %s=%s" % (n_g, rel, g)
            for v in range(s["sz"][col]):
                num = n_g * int(m[g + (v,)])            # exact integers: expectation = num / w_g
                c = int(cnt[g + (v,)])
                if abs(c * w_g - num) > 2 * w_g:
                    return ("column %s, group %s=%s (%d records): value %d occurs %d times, expectation %.3f" % (col, rel, g, n_g, v, c, num / w_g))
    return None


def bound_B(model, s):
    """Rounding-error bound, independent of the number of rows: one unit per (group, value) cell of every column."""
    order = list(model.elimination_order)[::-1]
    used, B = [], 0
    cl = [set(c) for c in model.cliques]
    for col in order:
        rel = set(used) & set().union(*[c for c in cl if col in c])
        B += math.prod(s["sz"][a] for a in rel) * s["sz"][col]
        used.append(col)
    return B


def synth_events(model, s, ev, df, Z, total, method):
    """H3 events + final frame -> SynthTrace events."""
    out = []
    i = 0
    evs = [(k, f) for k, f in ev if k.startswith("synth.")]
    first_col = list(model.elimination_order)[::-1][0]
    cur = {"col": first_col, "proj": []}
    out.append({"e": "Column", "col": first_col, "proj": []})
    groups = iter([()])
    pend = [()]
    for k, f in evs:
        if k == "synth.column":
            cur = {"col": f["col"], "proj": list(f["proj"])}
            out.append({"e": "Column", "col": f["col"], "proj": list(f["proj"])})
            if cur["proj"]:
                keys = sorted(set(map(tuple, df[cur["proj"]].values.tolist())))
            else:
                keys = [()]
            pend = list(keys)
        else:
            if not pend:
                return None
            g = pend.pop(0)
            sel = df
            for a, v in zip(cur["proj"], g):
                sel = sel[sel[a] == v]
            n = len(sel)
            hist = np.bincount(sel[cur["col"]].values, minlength=s["sz"][cur["col"]]).tolist()
            w, exact = near_int(np.asarray(f["counts"], dtype=float) * Z / total, rel=1e-6)
            out.append({"e": "Group", "col": cur["col"], "proj": cur["proj"], "g": [int(x) for x in g], "w": w, "exact": bool(exact),
                        "n": int(n), "out": [int(x) for x in hist], "total_arg": int(f["total"])})
            if int(f["total"]) != n:
                out[-1]["exact"] = False      # the code was asked for another number of rows than the group holds
    out.append({"e": "Done"})
    return out


def run(ctx, canary=False):
    rng = random.Random(ctx.seed)
    thorough = ctx.tier == "thorough"
    ctx.rule = ("TLC checks Separation and CondFaithful for every clique structure of the catalogue (cyclic, disconnected, nested, "
                "duplicated; thorough adds all graphs on 4 attributes) x EVERY elimination order, and every apportionment outcome for small "
                "weight vectors; synthetic_data is run on those models (zero-probability cells, totals, rows 1..1e6, round/sample, repeated "
                "calls on one model with cached marginals) checking row count, ranges, empty impossible cells and an n-independent rounding "
                "bound on every clique; H3 traces (rows <= 400) are validated by SynthTrace.tla. non-trivial = distinct (structure, order, "
                "zero pattern, rows, method)")
    cat = [s for s in catalogue(ctx.tier) if len(s["ord"]) <= 4 or thorough]
    # ---- design level
    # small generic weights for the design-level identity (CondFaithful multiplies two marginals: keep Z^2 < 2^31)
    small = lambda p, k: {"at": p["at"], "w": [1 + ((3 * i + 2 * k + i * i) % 3) for i in range(len(p["w"]))]}
    tstructs = [{"V": set(s["ord"]), "sz": s["sz"], "ord": s["ord"], "pots": [small(p, k) for k, p in enumerate(s["pots"])],
                 "cl": set(fs(c) for c in s["cliques"]), "orders": set()}
                for s in cat if len(s["ord"]) <= 4]
    mc = os.path.join(ctx.work, "MC_Synth.tla")
    with open(mc, "w") as f:
        f.write("---- MODULE MC_Synth ----\nEXTENDS Synthetic\nMCStructs == %s\n"
                "ApportionAll == \\A w \\in [1..3 -> 0..4] : \\A n \\in 1..6 : SumFn(w, 1..3) > 0 => ApportionDesign(w, n)\n====\n" % to_tla(tstructs))
    cfg = ("CONSTANTS\n  Structs <- MCStructs\n  Orders = \"all\"\nSPECIFICATION Spec\nINVARIANT Separation\nINVARIANT CondFaithful\n"
           "INVARIANT ApportionAll\nCHECK_DEADLOCK FALSE\n")
    r = ctx.tlc(mc, cfg, name="Synthetic", workers=12, extra_modules=("synth",), timeout=14400, coverage=True)
    if r.violated:
        ctx.violation("design-level: %s violated in Synthetic.tla" % r.violated, {"tlc": r.trace_text()}, {"kind": "design"})

    # ---- runs
    traces = []
    nrun = 0
    budget = 1500 if thorough else 170
    rows_menu = [1, 2, 7, 100, 10 ** 4, 10 ** 6]
    # attributes with 200 and 300 values (codes that do not fit a signed / unsigned byte): replayed only, not model-checked
    wide_structs = [{"name": "wide%d" % n_, "ord": ["a", "b"], "sz": {"a": n_, "b": 2}, "cliques": [["a", "b"]],
                     "pots": [{"at": ["a", "b"], "w": [1 + (7 * i_) % 5 for i_ in range(2 * n_)]}]} for n_ in (200, 300)]
    while nrun < budget:
        s = wide_structs[nrun % 2] if nrun < 4 else rng.choice(cat)
        V = s["ord"]
        order = list(V)
        rng.shuffle(order)
        dom_order = V if rng.random() < 0.6 else list(reversed(V))
        cells = [(k + 1, i + 1) for k, p in enumerate(s["pots"]) for i in range(len(p["w"]))]
        zs = set(rng.sample(cells, rng.randint(0, max(0, len(cells) // 3))))
        joint = brute_joint(V, s["sz"], [(p["at"], [0 if (k + 1, i + 1) in zs else w for i, w in enumerate(p["w"])]) for k, p in enumerate(s["pots"])])
        Z = sum(joint.values())
        if Z == 0 or Z > 2 * 10 ** 6:
            continue
        nrun += 1
        total = rng.choice([1.0, 10.0, 57.3, 1000.0, 12.75, 3.5, 1.999, 2.9999999, 999.9999999999])
        method = rng.choice(["round", "round", "sample"])
        rows = rng.choice([None] + rows_menu + ([25, 400] if True else []))
        if method == "sample" and rng.random() < 0.4:
            rows = 60000            # enough records for the (very conservative) check of attribute pairs outside the cliques
        twice = rng.random() < 0.25
        repot = (not twice) and rng.random() < 0.2
        info = {"structure": s["name"], "cliques": s["cliques"], "sizes": s["sz"], "elim_order": order, "dom_order": dom_order,
                "zero_cells": sorted(zs), "total": total, "rows": rows, "method": method, "second_call_after_small_round": twice, "reparameterised_after_a_first_call": repot}
        ctx.case(json.dumps(info, sort_keys=True), nontrivial=True)
        try:
            m = build_model(s, order, dom_order, total)
            if repot:
                # the model object is re-parameterised after records were generated from it once
                other = set(rng.sample(cells, rng.randint(0, max(0, len(cells) // 3))))
                j0 = brute_joint(V, s["sz"], [(p_["at"], [0 if (k + 1, i + 1) in other else w for i, w in enumerate(p_["w"])]) for k, p_ in enumerate(s["pots"])])
                if sum(j0.values()) > 0:
                    m.potentials = potentials(m, s, other, [0.0] * len(s["pots"]))
                    np.random.seed(1)
                    m.synthetic_data(rows=4, method="round")
            m.potentials = potentials(m, s, zs, [0.0] * len(s["pots"]))
            if (rng.random() < 0.5 or twice) and not repot:
                m.marginals = m.belief_propagation(m.potentials)
            np.random.seed(rng.randrange(2 ** 31))
            if twice:
                m.synthetic_data(rows=3, method="round")        # an earlier call on the same model must not matter
            with tracing() as ev:
                data = m.synthetic_data(rows=rows, method=method) if rows is not None else m.synthetic_data(method=method)
        except Exception as ex:
            ctx.violation("synthetic_data raised %r" % ex, info, {"kind": "synthetic_data_crash"})
            continue
        df = data.df
        n = int(total) if rows is None else rows
        bad = []
        if len(df) != n:
            bad.append("%d rows, requested %d" % (len(df), n))
        if list(df.columns) != list(m.domain.attrs) or data.domain != m.domain:
            bad.append("columns/domain %s differ from the model's %s" % (list(df.columns), m.domain))
        else:
            for a in V:
                if len(df) and (df[a].min() < 0 or df[a].max() >= s["sz"][a]):
                    bad.append("value of %s outside its domain" % a)
            B = bound_B(m, s)
            for cl in m.cliques:
                cnt = np.zeros([s["sz"][a] for a in cl])
                if len(df):
                    np.add.at(cnt, tuple(df[a].values for a in cl), 1)
                exp = np.array(marg_of_joint(V, s["sz"], joint, list(cl)), dtype=float).reshape(cnt.shape) * n / Z
                if np.any((exp == 0) & (cnt > 0)):
                    bad.append("records in a zero-probability cell of clique %s" % (cl,))
                if method == "round" and np.max(np.abs(cnt - exp)) > B + 1e-6:
                    bad.append("clique %s: count differs from expectation by %.1f > bound %d (rows %d)" % (cl, float(np.max(np.abs(cnt - exp))), B, n))
            if method == "round" and not bad:
                prob = apportion_problems(df, m, s, V, joint)
                if prob:
                    bad.append("round mode: " + prob + " (rows %d; the rounding error must not grow with the number of rows)" % n)
            if method == "sample" and n >= 10000 and not bad:
                # sampling mode: every PAIR of attributes (also pairs that share no clique) must follow the model's joint. The
                # allowance of 8 standard deviations + 8 makes a false alarm practically impossible (< 1e-14 per cell); a wrong
                # dependence structure is off by a constant fraction of the rows.
                for a, b in itertools.combinations(V, 2):
                    cnt = np.zeros((s["sz"][a], s["sz"][b]))
                    np.add.at(cnt, (df[a].values, df[b].values), 1)
                    pr = np.array(marg_of_joint(V, s["sz"], joint, [a, b]), dtype=float).reshape(cnt.shape) / Z
                    dev = np.abs(cnt - n * pr)
                    lim = 8.0 * np.sqrt(n * pr * (1 - pr)) + 8.0
                    if np.any(dev > lim):
                        bad.append("sample mode: counts of (%s,%s) deviate from the model by %.0f (8-sigma allowance %.0f, rows %d)" % (
                            a, b, float(np.max(dev)), float(lim.reshape(-1)[int(np.argmax(dev))]), n))
                        break
        if bad:
            ctx.violation("synthetic data does not realise the model: " + "; ".join(bad[:3]), info, {"kind": "synth"})
        if n <= 400 and len(traces) < (600 if thorough else 80) and not bad and not s["name"].startswith("wide"):
            evs = synth_events(m, s, ev, df, Z, total, method)
            if evs is None:
                ctx.violation("more column-generation calls than groups", info, {"kind": "synth"})
            else:
                traces.append({"ord": V, "sz": s["sz"], "pots": [{"at": p["at"], "w": [0 if (k + 1, i + 1) in zs else w for i, w in enumerate(p["w"])]} for k, p in enumerate(s["pots"])],
                               "cliques": [list(c) for c in s["cliques"]], "order": order, "method": method, "events": evs, "info": info})
    if canary:
        traces = corrupt(traces)
    tcfg = ("CONSTANTS\n  Structs <- TraceStructs\n  Orders = \"given\"\n  Strict = %s\nSPECIFICATION TraceSpec\nCONSTRAINT Marker\n"
            "POSTCONDITION Post\nCHECK_DEADLOCK FALSE\n")
    res = T.validate2(ctx, "synth/SynthTrace.tla", tcfg % "TRUE", tcfg % "FALSE", traces, name="SynthTrace", chunk=100, timeout=7200)
    for t, (ok, okl, reached, reachedl, ln) in zip(traces, res):
        if t.get("canary"):
            if ok:
                raise MachineryError("canary accepted: " + t["canary"])
        elif ok:
            ctx.traces_validated += 1
        elif okl:
            # the records passed every end-to-end check above (row count, ranges, empty impossible cells, rounding bound)
            ctx.deviation("synthetic data realise the model, but the generation is not a behaviour of Synthetic.tla: " + T.describe_reject(t, reached), t["info"])
        else:
            reached = reachedl
            ctx.violation("synthetic-data trace rejected by SynthTrace.tla: " + T.describe_reject(t, reached), {"info": t["info"], "trace": t["events"][:reached + 1][-4:]},
                          {"kind": "trace"})
    if traces:
        ctx.sample({"H3 trace": traces[0]["info"], "events": traces[0]["events"][:4]})
    ctx.assumptions += ["numpy's samplers are trusted: sample mode is decided by the exact per-column sampling weights plus Separation/CondFaithful",
                        "rounding bound B = sum over columns of (#conditioning configurations x column size)"]


def corrupt(traces):
    import copy
    out = []
    for t in traces[:50]:
        gi = [i for i, e in enumerate(t["events"]) if e["e"] == "Group" and max(e["out"]) >= 2 and len(e["out"]) >= 2]
        if gi:
            c = copy.deepcopy(t)
            e = c["events"][gi[-1]]
            j = max(range(len(e["out"])), key=lambda q: e["out"][q])
            e["out"][j] -= 2 if e["out"][j] >= 2 else 1
            e["out"][(j + 1) % len(e["out"])] += 2 if t["events"][gi[-1]]["out"][j] >= 2 else 1
            if t["method"] == "round":
                c["canary"] = "two records moved between cells of one group"
                out.append(c)
        ci = [i for i, e in enumerate(t["events"]) if e["e"] == "Column" and e["proj"]]
        if ci:
            c = copy.deepcopy(t)
            c["events"][ci[-1]]["proj"] = c["events"][ci[-1]]["proj"][:-1]
            c["canary"] = "conditioning attribute dropped"
            out.append(c)
    return out


def replay(ctx, path):
    print(json.dumps(json.load(open(path)), indent=1)[:3000])
    return 0
