"""Lock-step execution of the mechanisms on neighbouring datasets (shared by C05 and C06)."""
import itertools, json, math, multiprocessing, random
import numpy as np
from . import rng as R, mech as M

U = 1000000
DOMAINS = [(["a", "b"], [2, 2]), (["a", "b", "c"], [2, 2, 2]), (["a", "b", "c"], [2, 3, 2])]


def scenarios(rng, count, mechs=("MST", "AIM", "MWEM", "AdaGrid"), include_known=True):
    out = []
    k = 0
    while len(out) < count:
        name = mechs[k % len(mechs)]
        k += 1
        attrs, sizes = rng.choice(DOMAINS)
        d = len(attrs)
        n = rng.choice([0, 1, 2, 3, 4, 6])
        cells = list(itertools.product(*[range(s) for s in sizes]))
        if rng.random() < 0.25 and n:
            recs = [list(rng.choice(cells))] * n                       # all records in one cell
        else:
            recs = [list(rng.choice(cells)) for _ in range(n)]
        p = {"epsilon": rng.choice([0.1, 1.0, 10.0]), "delta": rng.choice([1e-9, 1e-3])}
        if name == "AIM":
            if d == 2 and rng.random() < 0.5:
                continue
            p["rounds"] = rng.choice([d, 2 * d, None] + ([1] if include_known else []))
            # all pairs / one triple / a workload that leaves an attribute uncovered
            p["workload"] = rng.choice([None, [tuple(attrs)], [tuple(attrs[:2])], [tuple(attrs[1:])]]) if d == 3 else None
        elif name == "MWEM":
            p["noise"] = rng.choice(["gaussian", "laplace"])
            p["bounded"] = rng.choice([False, True])
            p["rounds"] = rng.choice([1, 2, d, None])
            p["alpha"] = rng.choice([0.9, 0.5])
            if p["noise"] == "laplace":
                p["delta"] = 0.0
            if p["bounded"] and n == 0:
                continue
        elif name == "AdaGrid":
            p["targets"] = rng.choice([[], [attrs[-1]]]) if d == 3 else []
            p["split_strategy"] = rng.choice([None, [1, 2, 1]])
            p["threshold"] = 5.0
        out.append({"mech": name, "params": p, "attrs": attrs, "sizes": sizes, "records": recs, "seed": rng.randrange(10 ** 6)})
    return out


def adversarial(rng):
    """Datasets on which one record moves two candidate scores in OPPOSITE directions (worst case for a selection's
    sensitivity): {(0,0,0)} + 3 x (0,1,0) + 3 x (1,0,1); moving (0,0,0) -> (1,0,0) raises the (a,b) error by 2 and lowers (a,c) by 2."""
    recs = [[0, 0, 0]] + [[0, 1, 0]] * 3 + [[1, 0, 1]] * 3
    out = []
    for bounded, noise, alpha in [(b, n, a) for b in (True, False) for n in ("gaussian", "laplace") for a in (0.5, 0.9)]:
        if True:
            p = {"epsilon": 1.0, "delta": 0.0 if noise == "laplace" else 1e-6, "noise": noise, "bounded": bounded, "rounds": 1, "alpha": alpha}
            out.append({"mech": "MWEM", "params": p, "attrs": ["a", "b", "c"], "sizes": [2, 2, 2], "records": [list(r) for r in recs],
                        "seed": rng.randrange(10 ** 6), "all_neighbours": True, "forced_neighbours": [("replace#0->(1, 0, 0)", [[1, 0, 0]] + [list(r) for r in recs[1:]])] if bounded
                        else [("remove#0", [list(r) for r in recs[1:]]), ("add(1, 0, 0)", [list(r) for r in recs] + [[1, 0, 0]])]})
    # 200 records over four binary attributes: cell (0,0) is over-represented in the (a,b) marginal [80,40,40,40] and
    # under-represented in the (c,d) marginal [20,60,60,60]; adding / removing a record (0,0,0,0) moves the two scores apart
    ab = [(0, 0)] * 80 + [(0, 1)] * 40 + [(1, 0)] * 40 + [(1, 1)] * 40
    cd = [(0, 0)] * 20 + [(0, 1)] * 60 + [(1, 0)] * 60 + [(1, 1)] * 60
    big = [[ab[i][0], ab[i][1], cd[(i * 7) % 200][0], cd[(i * 7) % 200][1]] for i in range(200)]
    if [0, 0, 0, 0] not in big:
        big[0] = [0, 0, 0, 0]
    i0 = big.index([0, 0, 0, 0])
    for alpha, rounds in ((0.9, 2), (0.5, 1)):
        p = {"epsilon": 1.0, "delta": 1e-6, "noise": "gaussian", "bounded": False, "rounds": rounds, "alpha": alpha,
             "workload": [("a", "b"), ("c", "d")]}
        out.append({"mech": "MWEM", "params": p, "attrs": ["a", "b", "c", "d"], "sizes": [2, 2, 2, 2], "records": [list(r) for r in big],
                    "seed": rng.randrange(10 ** 6),
                    "forced_neighbours": [("remove#%d" % i0, [list(r) for j, r in enumerate(big) if j != i0]),
                                          ("add(0, 0, 0, 0)", [list(r) for r in big] + [[0, 0, 0, 0]])]})
    # MWEM with more rounds than workload marginals
    for noise in ("gaussian", "laplace"):
        p = {"epsilon": 1.0, "delta": 0.0 if noise == "laplace" else 1e-6, "noise": noise, "bounded": False, "rounds": 3, "alpha": 0.9,
             "workload": [("a", "b"), ("b", "c")]}
        out.append({"mech": "MWEM", "params": p, "attrs": ["a", "b", "c"], "sizes": [2, 2, 2], "records": [list(r) for r in recs],
                    "seed": rng.randrange(10 ** 6), "all_neighbours": True})
    # AdaGrid with a target attribute (step 1 then measures the whole downward closure) and with explicit budget splits
    for targets, split in ((["c"], None), (["c"], [1, 2, 1]), ([], [1, 1, 2]), (["b"], [2, 3, 5])):
        p = {"epsilon": 1.0, "delta": 1e-6, "targets": targets, "split_strategy": split, "threshold": 5.0}
        out.append({"mech": "AdaGrid", "params": p, "attrs": ["a", "b", "c"], "sizes": [2, 3, 2],
                    "records": [[rng.randrange(2), rng.randrange(3), rng.randrange(2)] for _ in range(6)], "seed": rng.randrange(10 ** 6)})
    # AIM with a model-size cap that binds in the first rounds and relaxes later (candidates of larger weight enter late)
    for cap_ in (1.2e-4, 2e-4):
        p = {"epsilon": 3.0, "delta": 1e-6, "rounds": 6, "workload": [("a", "b", "c")], "max_model_size": cap_}
        out.append({"mech": "AIM", "params": p, "attrs": ["a", "b", "c"], "sizes": [2, 3, 2],
                    "records": [[rng.randrange(2), rng.randrange(3), rng.randrange(2)] for _ in range(8)], "seed": rng.randrange(10 ** 6), "all_neighbours": True})
    # AIM with a workload that leaves an attribute uncovered (one-way releases are due only for covered attributes)
    for wl in ([("a", "b")], [("b", "c")]):
        p = {"epsilon": 1.0, "delta": 1e-6, "rounds": 4, "workload": wl}
        out.append({"mech": "AIM", "params": p, "attrs": ["a", "b", "c"], "sizes": [2, 2, 2],
                    "records": [[rng.randrange(2) for _ in range(3)] for _ in range(6)], "seed": rng.randrange(10 ** 6)})
    return out


def threshold_ladders(rng):
    """A ladder of one-way counts 1..6 on attribute a: for any support threshold inside (1, 6] some value sits exactly at the
    threshold and one neighbour pushes it across, so a threshold applied to true instead of noisy counts becomes visible."""
    out = []
    for mech, plist in (("MST", [{"epsilon": 10.0, "delta": 1e-3}, {"epsilon": 10.0, "delta": 1e-9}]),
                        ("AdaGrid", [{"epsilon": 10.0, "delta": 1e-3, "targets": [], "split_strategy": None, "threshold": t} for t in (1.0, 3.0)])):
        for p in plist:
            recs = [[v, rng.randrange(2), rng.randrange(2)] for v in range(6) for _ in range(v + 1)]
            forced = []
            for v in range(6):
                i = next(j for j, r in enumerate(recs) if r[0] == v)
                forced.append(("remove#%d" % i, [list(r) for j, r in enumerate(recs) if j != i]))
                forced.append(("add(%d, 0, 0)" % v, [list(r) for r in recs] + [[v, 0, 0]]))
            out.append({"mech": mech, "params": p, "attrs": ["a", "b", "c"], "sizes": [6, 2, 2], "records": recs,
                        "seed": rng.randrange(10 ** 6), "forced_neighbours": forced, "only_forced": True})
    return out


def design_params(sc):
    name, p, d = sc["mech"], sc["params"], len(sc["attrs"])
    t = {"mech": name, "d": d, "T": 1, "a10": 9, "n1": 1, "r": 2, "n3": 1, "f": [1, 1, 1], "fsum": 3}
    if name == "AIM":
        t["T"] = p.get("rounds") or 16 * d
        if p.get("workload"):
            t["d"] = len(set(a for c in p["workload"] for a in c))      # one-way releases only for attributes the workload touches
    elif name == "MWEM":
        t["T"] = p.get("rounds") or d
        t["a10"] = int(round(10 * p.get("alpha", 0.9)))
    elif name == "AdaGrid":
        nt = len(p.get("targets") or [])
        t["r"] = d - nt
        t["n1"] = (d - nt) * (2 ** (nt + 1) - 1) - (d - nt - 1) * (2 ** nt - 1)     # |downward closure of {(a,)+targets}|
        t["n3"] = t["r"] - 1
        if p.get("split_strategy"):
            t["f"], t["fsum"] = list(p["split_strategy"]), sum(p["split_strategy"])
    return t


def pair_job(job):
    """Run the mechanism on D (record) and on every given neighbour (replay). Pure data in, pure data out."""
    sc, nbrs = job
    name, p = sc["mech"], sc["params"]
    ip = R.Interposer(sc["seed"])
    out1, err1 = M.run_mechanism(name, p, sc["records"], sc["attrs"], sc["sizes"], ip)
    res = {"err1": err1, "pairs": [], "n_prim": sum(1 for e in ip.events if e["e"] != "Post")}
    if err1:
        return res
    mode, bud = M.budget(name, p)
    res["mode"], res["budget"] = mode, bud
    res["out_domain"] = [list(out1.domain.attrs), list(out1.domain.shape)]
    res["out_rows"] = len(out1.df)
    sens2 = 2.0 if (name == "MWEM" and p.get("bounded")) else 1.0
    def compare(label, evA, outA, evB, outB, err2, base=None):
        """One pair of executions that observed identical releases and selections: C06 observables and C05 ledger."""
        pr = {"label": label, "err2": err2}
        if base is not None:
            pr["base_records"] = base
        e1 = [e for e in evA if e["e"] != "Post"]
        e2 = [e for e in evB if e["e"] != "Post"]
        # ---- C06 observables
        diffs = []
        if len(e1) != len(e2):
            diffs.append("%d primitives on D, %d on the neighbour" % (len(e1), len(e2)))
        for i, (a, b) in enumerate(zip(e1, e2)):
            if a["e"] != b["e"]:
                diffs.append("primitive %d: %s vs %s" % (i, a["e"], b["e"])); break
            if a["e"] == "Release":
                if a["kind"] != b["kind"] or a["scale"] != b["scale"]:
                    diffs.append("release %d: noise %s scale %r vs %s scale %r" % (i, a["kind"], a["scale"], b["kind"], b["scale"])); break
                if a["x"].shape != b["x"].shape:
                    diffs.append("release %d: %d cells vs %d" % (i, a["x"].size, b["x"].size)); break
            elif len(a["p"]) != len(b["p"]):
                diffs.append("selection %d: %d candidates vs %d" % (i, len(a["p"]), len(b["p"]))); break
        posts1 = [e["fn"] for e in evA if e["e"] == "Post"]
        posts2 = [e["fn"] for e in evB if e["e"] == "Post"]
        if not err2:
            if posts1 != posts2:
                diffs.append("post-processing randomness consumed differently (%d vs %d draws)" % (len(posts1), len(posts2)))
            if outB is None or not outA.df.reset_index(drop=True).equals(outB.df.reset_index(drop=True)):
                diffs.append("returned synthetic data differ (%s vs %s rows)" % (len(outA.df), None if outB is None else len(outB.df)))
        pr["c06_diffs"] = diffs
        ni = []
        for a, b in zip(e1, e2):
            ka = a["e"] + ":" + a.get("kind", "")
            kb = b["e"] + ":" + b.get("kind", "")
            sa, sb = a.get("scale", 0.0), b.get("scale", 0.0)
            ni.append({"k": "Prim", "kind1": ka, "kind2": kb, "scale1": int(min(sa, 2000.0) * 1e6), "scale2": int(min(sb, 2000.0) * 1e6),
                       "scale_bits_equal": bool(sa == sb), "n1": int(len(a["x"]) if a["e"] == "Release" else len(a["p"])),
                       "n2": int(len(b["x"]) if b["e"] == "Release" else len(b["p"]))})
        ni.append({"k": "Out", "nprim1": len(e1), "nprim2": len(e2), "posts_equal": bool(posts1 == posts2),
                   "same_output": bool(outB is not None and outA.df.reset_index(drop=True).equals(outB.df.reset_index(drop=True))),
                   "domain_attrs": list(outA.domain.attrs), "domain_shape": [int(v) for v in outA.domain.shape]})
        pr["ni_events"] = ni
        # ---- C05 ledger
        costs = M.ledger(evA, evB, mode)
        if err2 and err2.startswith("diverged"):
            # the second run asked for another primitive than the first: which primitives run depends on the data, uncharged
            costs.append({"e": "Select", "diverged": err2, "eta": math.inf, "maxabs": math.inf, "cost": math.inf})
        events = []
        for c in costs:
            if c["e"] == "Release":
                if mode == "zcdp":
                    design = sens2 / (2 * c["scale"] ** 2) / bud
                else:
                    design = (2.0 if sens2 == 2.0 else 1.0) / c["scale"] / bud       # L1 sensitivity / b
                events.append({"k": "R", "design": int(round(min(design, 2000.0) * U)), "actual": int(math.ceil(min(c["cost"] / bud, 2000.0) * U - 1e-6))})
            else:
                events.append({"k": "S", "design": 0, "actual": int(math.ceil(min(c["cost"] / bud, 2000.0) * U - 1e-6))})
        events.append({"k": "Done", "design": 0, "actual": 0})
        pr["ledger_events"] = events
        pr["spent"] = float(sum(c["cost"] for c in costs)) / bud if bud > 0 else float("inf")
        pr["worst"] = max(costs, key=lambda c: c["cost"], default=None)
        if pr["worst"]:
            pr["worst"] = {k: v for k, v in pr["worst"].items()}
        return pr

    for label, recs2 in nbrs:
        ip2 = R.Interposer(sc["seed"], replay=ip.events)
        out2, err2 = M.run_mechanism(name, p, recs2, sc["attrs"], sc["sizes"], ip2)
        res["pairs"].append(compare(label, ip.events, out1, ip2.events, out2, err2))
    # ---- a far dataset reached through a path of neighbours, every one replaying D's observations: if the far end behaves
    # differently, so do two ADJACENT datasets on the path (both observing identical releases) - that pair is reported
    path = sc.get("path") or []
    if path:
        prev_ev, prev_out, prev_recs = ip.events, out1, sc["records"]
        for i, recs_i in enumerate(path):
            ipi = R.Interposer(sc["seed"], replay=ip.events)
            outi, erri = M.run_mechanism(name, p, recs_i, sc["attrs"], sc["sizes"], ipi)
            pr = compare("path step %d of %d towards a far dataset" % (i + 1, len(path)), prev_ev, prev_out, ipi.events, outi, erri, base=prev_recs)
            pr["neighbour_records"] = recs_i
            if pr["c06_diffs"] or erri:
                pr["on_path"] = True
                res["pairs"].append(pr)
                break
            prev_ev, prev_out, prev_recs = ipi.events, outi, recs_i
        res["path_len"] = len(path)
    # ---- growth: D plus k copies of one record. Checked at the far end first; only if that differs, bisect for an adjacent pair
    grow = sc.get("grow")
    if grow:
        rec, k = grow
        def run_at(i):
            ipi = R.Interposer(sc["seed"], replay=ip.events)
            recs_i = [list(r) for r in sc["records"]] + [list(rec)] * i
            outi, erri = M.run_mechanism(name, p, recs_i, sc["attrs"], sc["sizes"], ipi)
            return recs_i, ipi.events, outi, erri
        recs_k, ev_k, out_k, err_k = run_at(k)
        pr = compare("D plus %d copies of %s" % (k, rec), ip.events, out1, ev_k, out_k, err_k)
        res["grow_checked"] = k
        if pr["c06_diffs"] or err_k:
            lo, hi = 0, k                      # behaviour at lo equals D's, behaviour at hi differs
            cache = {0: (sc["records"], ip.events, out1, None), k: (recs_k, ev_k, out_k, err_k)}
            while hi - lo > 1:
                mid = (lo + hi) // 2
                cache[mid] = run_at(mid)
                prm = compare("", ip.events, out1, cache[mid][1], cache[mid][2], cache[mid][3])
                if prm["c06_diffs"] or cache[mid][3]:
                    hi = mid
                else:
                    lo = mid
            ra, eva, outa, _ = cache[lo]
            rb, evb, outb, errb = cache[hi]
            pr = compare("add%s to D plus %d copies of it" % (tuple(rec), lo), eva, outa, evb, outb, errb, base=[list(r) for r in ra])
            pr["neighbour_records"] = [list(r) for r in rb]
            pr["on_path"] = True
            res["pairs"].append(pr)
    return res


def far_path(sc, adj, rng):
    """A dataset far from sc['records'] and a path of neighbouring datasets leading to it."""
    import itertools as it
    cells = list(it.product(*[range(n) for n in sc["sizes"]]))
    D = [list(r) for r in sc["records"]]
    if adj == "replace":
        F = [list(rng.choice(cells)) for _ in D]
        path, cur = [], [list(r) for r in D]
        for i in range(len(D)):
            if cur[i] != F[i]:
                cur = cur[:i] + [F[i]] + cur[i + 1:]
                path.append([list(r) for r in cur])
        return path
    hot = list(rng.choice(cells))
    F = [hot if rng.random() < 0.6 else list(rng.choice(cells)) for _ in range(rng.choice([2, 5, 9]))]
    path, cur = [], [list(r) for r in D]
    while cur:
        cur = cur[:-1]
        path.append([list(r) for r in cur])
    for r in F:
        cur = cur + [r]
        path.append([list(r_) for r_ in cur])
    return path


def run_all(scs, nbr_limit, rng, procs=16, far=False):
    jobs = []
    for sc in scs:
        adj = "replace" if (sc["mech"] == "MWEM" and sc["params"].get("bounded")) else "addremove"
        if far and not sc.get("only_forced"):
            if not sc.get("wide") and len(sc["records"]) <= 12:
                sc["path"] = far_path(sc, adj, rng)
            if adj == "addremove":
                import itertools as it
                cells = list(it.product(*[range(n) for n in sc["sizes"]]))
                sc["grow"] = sc.get("grow") or (list(rng.choice(cells)), rng.choice([40, 400]))
        nb = M.neighbours(sc["records"], sc["sizes"], adj, rng, limit=None if sc.get("all_neighbours") else (2 if sc.get("wide") else nbr_limit))
        nb = list(sc.get("forced_neighbours", [])) + [x for x in nb if x[0] not in {f[0] for f in sc.get("forced_neighbours", [])} and not sc.get("only_forced") and not sc.get("only_forced_nb")]
        jobs.append((sc, nb))
    with multiprocessing.get_context("fork").Pool(procs) as pool:
        results = pool.map(pair_job, jobs, chunksize=1)
    return jobs, results


LEDGER_CFG = "CONSTANTS\n  Ds = {}\n  Ts = {}\n  Strict = TRUE\nSPECIFICATION TraceSpec\nCONSTRAINT Marker\nPOSTCONDITION Post\nCHECK_DEADLOCK FALSE\n"

LEDGER_CFG_LENIENT = LEDGER_CFG.replace("Strict = TRUE", "Strict = FALSE")
