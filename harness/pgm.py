"""Helpers around the implementation under test (imported from /repo's working tree)."""
import itertools, math, os, sys
import numpy as np
from .core import REPO

for p in (os.path.join(REPO, "src"), REPO):
    if p not in sys.path:
        sys.path.insert(0, p)

import mbi  # noqa: E402
from mbi import Domain, Factor, CliqueVector, GraphicalModel, Dataset  # noqa: E402
from mbi.junction_tree import JunctionTree  # noqa: E402

assert os.path.realpath(mbi.__file__).startswith(os.path.realpath(REPO)), "mbi not imported from the working tree: " + mbi.__file__

LETTERS = "abcdefghij"


def fs(x=()):
    return frozenset(x)


def brute_joint(attrs, sizes, tables):
    """Exact joint (python ints or floats) over attrs (row-major) of the product of tables.

    tables: list of (attr_tuple, ndarray/list nested row-major flat list)."""
    shape = [sizes[a] for a in attrs]
    out = {}
    for x in itertools.product(*[range(n) for n in shape]):
        asg = dict(zip(attrs, x))
        w = 1
        for tattrs, flat in tables:
            idx = 0
            for a in tattrs:
                idx = idx * sizes[a] + asg[a]
            w = w * flat[idx]
        out[x] = w
    return out


def marg_of_joint(attrs, sizes, joint, proj):
    """Marginal of joint dict onto proj (tuple, in that order) -> flat row-major list."""
    pos = [attrs.index(a) for a in proj]
    shape = [sizes[a] for a in proj]
    n = 1
    for s in shape:
        n *= s
    out = [0] * n
    for x, w in joint.items():
        idx = 0
        for p, s in zip(pos, shape):
            idx = idx * s + x[p]
        out[idx] += w
    return out


def jt_events(jt):
    """Events of JTTrace.tla from a constructed JunctionTree object."""
    ev = [{"e": "Eliminate", "a": a} for a in jt.elimination_order]
    ev.append({"e": "Tree", "nodes": [list(n) for n in jt.tree.nodes()],
               "edges": [[list(a), list(b)] for a, b in jt.tree.edges()]})
    for i, j in jt.mp_order():
        ev.append({"e": "Send", "i": list(i), "j": list(j)})
    ev.append({"e": "Done"})
    return ev


class tracing:
    """Collect hook events (mbi._verif_trace) emitted while the block runs."""

    def __enter__(self):
        from mbi import _verif_trace as vt
        if not vt.ON:
            from .core import MachineryError
            raise MachineryError("hooks disabled: PRIVATE_PGM_VERIF=1 must be set before mbi is imported")
        self.vt = vt
        self.prev = vt.sink
        self.events = []
        vt.sink = self.events
        return self.events

    def __exit__(self, *a):
        self.vt.sink = self.prev
        return False


def to_order(values, attrs, order):
    """Transpose ndarray `values` laid out along `attrs` into the attribute order `order`; flat list."""
    attrs = list(attrs)
    perm = [attrs.index(a) for a in order]
    return np.transpose(np.asarray(values).reshape([-1] if not attrs else np.asarray(values).shape), perm).reshape(-1) if attrs else np.asarray(values).reshape(-1)


def near_int(x, rel=1e-7):
    """(list of ints, exact?) for a float vector expected to hold integers."""
    x = np.asarray(x, dtype=float)
    if not np.all(np.isfinite(x)):
        return [0] * x.size, False
    r = np.rint(x)
    ok = bool(np.all(np.abs(x - r) <= rel * np.maximum(1.0, np.abs(r)))) and bool(np.all(np.abs(r) < 2 ** 30))
    return [int(v) for v in r], ok
