"""RNG interposition for the mechanisms (DESIGN 2.4) and the import shims they need in this sandbox.

Record mode : noisy releases return x + z (z from a seeded generator) and log the operand x;
              private selections log their probability vector and return a seeded draw.
Replay mode : the neighbour run observes exactly the recorded released values / selected indices, whatever its own
              operands are, and logs its own operands and probability vectors.
Randomness that is not a DP primitive (rounding, shuffling, un-compressing) is post-processing: it is served from a
generator seeded identically in both runs and logged as Post events.
"""
import contextlib, importlib.util, io, os, sys, types
import numpy as np
import scipy.sparse

from .core import REPO, MachineryError


# ------------------------------------------------------------------ shims (environment incompatibilities, not findings)
def install_shims(sigma_fn=None):
    if "autodp" not in sys.modules:
        autodp = types.ModuleType("autodp")
        pc = types.ModuleType("autodp.privacy_calibrator")

        def ana_gaussian_mech(epsilon, delta, **kw):
            # documented stand-in (classical Gaussian mechanism calibration); only linearity in the sensitivity is checked
            return {"sigma": (sigma_fn or (lambda e, d: np.sqrt(2 * np.log(1.25 / d)) / e))(epsilon, delta)}
        pc.ana_gaussian_mech = ana_gaussian_mech
        autodp.privacy_calibrator = pc
        sys.modules["autodp"] = autodp
        sys.modules["autodp.privacy_calibrator"] = pc
    if "hdmm" not in sys.modules:
        hdmm = types.ModuleType("hdmm")
        mat = types.ModuleType("hdmm.matrix")
        mat.Identity = lambda n: scipy.sparse.eye(n, format="csr")
        hdmm.matrix = mat
        sys.modules["hdmm"] = hdmm
        sys.modules["hdmm.matrix"] = mat
    # adaptive_grid.py assigns to Q.T (l.299, 338); current scipy has a read-only property
    for cls in {scipy.sparse.csr_matrix, getattr(scipy.sparse, "csr_array", scipy.sparse.csr_matrix),
                scipy.sparse.coo_matrix, getattr(scipy.sparse, "coo_array", scipy.sparse.coo_matrix)}:
        if not getattr(cls, "_verif_settable_T", False):
            def getT(self):
                o = self.__dict__.get("_T_override")
                return o if o is not None else self.transpose()

            def setT(self, v):
                self.__dict__["_T_override"] = v
            cls.T = property(getT, setT)
            cls._verif_settable_T = True


def load_mechanism(name):
    """Import mechanisms/<name>.py from the working tree (file names contain '+')."""
    install_shims()
    if REPO not in sys.path:
        sys.path.insert(0, REPO)
    modname = "verif_mech_" + name.replace("+", "_")
    if modname in sys.modules:
        return sys.modules[modname]
    path = os.path.join(REPO, "mechanisms", name + ".py")
    spec = importlib.util.spec_from_file_location(modname, path)
    mod = importlib.util.module_from_spec(spec)
    sys.modules[modname] = mod
    with contextlib.redirect_stdout(io.StringIO()):
        spec.loader.exec_module(mod)
    return mod


# ------------------------------------------------------------------ interposition
class NoiseToken(np.ndarray):
    """Stands for a vector of noise; adding it to x yields the released value and records x."""
    __array_ufunc__ = None        # make ndarray.__add__ defer to our __radd__
    __array_priority__ = 1e6

    def __new__(cls, box, kind, scale, size):
        obj = np.zeros(size).view(cls)
        obj._box, obj._kind, obj._scale = box, kind, scale
        return obj

    def __radd__(self, x):
        return self._box._release(self, np.asarray(x, dtype=float))

    __add__ = __radd__

    def __array_finalize__(self, obj):
        if obj is not None and hasattr(obj, "_box"):
            self._box, self._kind, self._scale = obj._box, obj._kind, obj._scale


class Interposer:
    NAMES = ("normal", "laplace", "choice", "rand", "permutation", "shuffle", "randint")

    def __init__(self, seed, replay=None, force_select=None):
        self.noise_rng = np.random.RandomState(seed)
        self.post_rng = np.random.RandomState(seed + 7919)
        self.events = []
        self.replay = replay          # list of events of the recorded run, or None
        self.force_select = force_select   # optional function(k, p) -> index (spec-driven histories)
        self.nprim = 0                # index among DP primitives (Release / Select)
        self.unused_tokens = 0

    # -- primitives
    def _release(self, tok, x):
        scale = float(tok._scale)
        x = x.reshape(-1).copy()
        k = self.nprim
        self.nprim += 1
        if self.replay is not None:
            rec = self._recorded(k, "Release")
            y = np.array(rec["y"], dtype=float)
            if y.shape != x.shape:
                self.events.append({"e": "Release", "kind": tok._kind, "scale": scale, "x": x, "y": None, "shape_mismatch": True})
                raise Diverged("release %d has %d cells, the recorded run released %d" % (k, x.size, y.size))
        else:
            z = self.noise_rng.normal(0, 1, x.size) if tok._kind == "gaussian" else self.noise_rng.laplace(0, 1, x.size)
            y = x + scale * z
        self.events.append({"e": "Release", "kind": tok._kind, "scale": scale, "x": x, "y": y.copy()})
        # code that keeps the noise vector and looks at it later sees the noise implied by the observed release (y - x)
        try:
            tok.view(np.ndarray).reshape(-1)[:] = y - x
        except Exception:
            pass
        return y.copy()

    def _recorded(self, k, kind):
        prim = [e for e in self.replay if e["e"] in ("Release", "Select")]
        if k >= len(prim) or prim[k]["e"] != kind:
            raise Diverged("primitive %d is a %s here, the recorded run had %s" % (k, kind, prim[k]["e"] if k < len(prim) else "nothing"))
        return prim[k]

    def normal(self, loc=0.0, scale=1.0, size=None):
        if size is None or np.ndim(loc) or loc != 0:
            raise MachineryError("unexpected use of np.random.normal(loc=%r, size=%r)" % (loc, size))
        return NoiseToken(self, "gaussian", scale, int(np.prod(size)))

    def laplace(self, loc=0.0, scale=1.0, size=None):
        if size is None or np.ndim(loc) or loc != 0:
            raise MachineryError("unexpected use of np.random.laplace(loc=%r, size=%r)" % (loc, size))
        return NoiseToken(self, "laplace", scale, int(np.prod(size)))

    def choice(self, a, size=None, replace=True, p=None):
        if p is not None and size is None:
            p = np.asarray(p, dtype=float).copy()
            k = self.nprim
            self.nprim += 1
            if self.replay is not None:
                rec = self._recorded(k, "Select")
                idx = rec["idx"]
                if len(rec["p"]) != len(p):
                    self.events.append({"e": "Select", "p": p, "idx": None})
                    raise Diverged("selection %d has %d candidates, the recorded run had %d" % (k, len(p), len(rec["p"])))
            elif self.force_select is not None:
                idx = int(self.force_select(k, p))
            else:
                if not np.all(np.isfinite(p)) or abs(p.sum() - 1) > 1e-6:
                    self.events.append({"e": "Select", "p": p, "idx": None})
                    raise Diverged("selection probabilities are not a distribution: %r" % (p.tolist(),))
                idx = int(self.noise_rng.choice(len(p), p=p / p.sum()))
            self.events.append({"e": "Select", "p": p, "idx": idx, "n": int(a) if np.ndim(a) == 0 else len(a)})
            return idx
        self.events.append({"e": "Post", "fn": "choice"})
        return self.post_rng.choice(a, size, replace, p)

    def rand(self, *a):
        self.events.append({"e": "Post", "fn": "rand"})
        return self.post_rng.rand(*a)

    def permutation(self, x):
        self.events.append({"e": "Post", "fn": "permutation"})
        return self.post_rng.permutation(x)

    def shuffle(self, x):
        self.events.append({"e": "Post", "fn": "shuffle"})
        return self.post_rng.shuffle(x)

    def randint(self, *a, **k):
        self.events.append({"e": "Post", "fn": "randint"})
        return self.post_rng.randint(*a, **k)

    @contextlib.contextmanager
    def active(self):
        saved = {n: getattr(np.random, n) for n in self.NAMES}
        try:
            for n in self.NAMES:
                setattr(np.random, n, getattr(self, n))
            yield self
        finally:
            for n, f in saved.items():
                setattr(np.random, n, f)


class Diverged(Exception):
    """The replayed run cannot consume the recorded observations (its control flow differs)."""


@contextlib.contextmanager
def capped_iters(cap):
    """Limit FactoredInference iterations (post-processing only: does not touch releases or selections)."""
    from mbi import FactoredInference
    orig = FactoredInference.estimate

    def estimate(self, *a, **k):
        keep = self.iters
        self.iters = min(self.iters, cap)
        try:
            return orig(self, *a, **k)
        finally:
            self.iters = keep
    FactoredInference.estimate = estimate
    try:
        yield
    finally:
        FactoredInference.estimate = orig
