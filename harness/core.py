"""Shared machinery for all checks: work dirs, TLC runs, verdicts, evidence.

Exit codes (DESIGN section 7): 0 held / only known findings, 1 unlisted
violation (one `VIOLATION property=<id> replay=<path>` line each), 2 machinery
failure.
"""
import json, os, re, shutil, subprocess, sys, time, tempfile, hashlib

VERIF = os.path.dirname(os.path.dirname(os.path.abspath(__file__)))
REPO = os.environ.get("VERIF_REPO", "/repo")
SPEC = os.path.join(VERIF, "spec")
TLA_JAR = "/opt/veriftools/tla/tla2tools.jar"
TLA_CM = "/opt/veriftools/tla/CommunityModules-deps.jar"
GUARD = "PRIVATE_PGM_VERIF"


class MachineryError(Exception):
    pass


class TSet(list):
    """A list to be rendered as a TLA+ set (for unhashable elements)."""


_IDENT = re.compile(r"^[A-Za-z][A-Za-z0-9_]*$")


def to_tla(v):
    """Render a Python value as a TLA+ expression."""
    if isinstance(v, TSet):
        return "{" + ", ".join(to_tla(x) for x in v) + "}"
    if isinstance(v, bool):
        return "TRUE" if v else "FALSE"
    if isinstance(v, int):
        return str(v) if v >= 0 else "(%d)" % v
    if isinstance(v, str):
        return '"' + v.replace("\\", "\\\\").replace('"', '\\"') + '"'
    if isinstance(v, (list, tuple)):
        return "<<" + ", ".join(to_tla(x) for x in v) + ">>"
    if isinstance(v, (set, frozenset)):
        return "{" + ", ".join(sorted(to_tla(x) for x in v)) + "}"
    if isinstance(v, dict):
        if not v:
            return "<<>>"
        if all(isinstance(k, str) and _IDENT.match(k) for k in v):
            return "[" + ", ".join("%s |-> %s" % (k, to_tla(x)) for k, x in v.items()) + "]"
        return "(" + " @@ ".join("%s :> %s" % (to_tla(k), to_tla(x)) for k, x in v.items()) + ")"
    raise TypeError("to_tla: %r" % (v,))


_EMIT = re.compile(r'^<<"EMIT", "(.*)">>$')


def _unq(s):
    return json.loads('"' + s + '"')


class TLCResult:
    def __init__(self, out, rc, wall):
        self.out, self.rc, self.wall = out, rc, wall
        self.emits = []
        for line in out.splitlines():
            m = _EMIT.match(line.strip())
            if m:
                self.emits.append(json.loads(_unq(m.group(1))))
        m = re.search(r"(\d+) states generated, (\d+) distinct states found", out)
        self.generated = int(m.group(1)) if m else 0
        self.distinct = int(m.group(2)) if m else 0
        if not m:
            m = re.search(r"(\d+) states checked", out)  # simulation mode
            if m:
                self.generated = self.distinct = int(m.group(1))
        self.no_error = "No error has been found" in out or "Model checking completed. No error" in out
        m = re.search(r"Invariant (\S+) is violated", out)
        self.violated = m.group(1) if m else None
        if not m:
            m = re.search(r"Action property (\S+) is violated", out) or re.search(r"Temporal properties were violated", out)
            if m:
                self.violated = m.group(1) if m.groups() else "temporal"
        self.assume_failed = "Assumption" in out and "is false" in out
        self.error = ("Error:" in out) and not self.violated
        self.coverage = {}
        for m in re.finditer(r"<(\w+) line (\d+), col \d+ to line \d+, col \d+ of module (\w+)(?: \((\d+) \d+ \d+ \d+\))?>: (\d+):(\d+)", out):
            k = m.group(1) + ("@%s" % m.group(4) if m.group(4) else "")
            self.coverage[k] = self.coverage.get(k, 0) + int(m.group(6))

    def trace_text(self):
        for key in ("Semantic errors", "Parse Error", "Lexical error", "Fatal errors"):
            i = self.out.find(key)
            if i >= 0:
                return self.out[max(0, i - 300):i + 1500]
        i = self.out.find("Error:")
        return self.out[i:i + 6000] if i >= 0 else self.out[-3000:]


class Ctx:
    """One check run (one property, one tier)."""

    def __init__(self, pid, tier="quick", seed=None, level="model_checking"):
        self.pid = pid
        self.tier = tier
        self.seed = int(os.environ.get("VERIF_SEED", "0")) if seed is None else seed
        self.level = level
        self.t0 = time.time()
        os.makedirs(os.path.join(VERIF, ".work"), exist_ok=True)
        self.work = tempfile.mkdtemp(prefix="%s-" % pid, dir=os.path.join(VERIF, ".work"))
        self.states = 0
        self.transitions = 0
        self.tlc_runs = []
        self.traces_validated = 0
        self.evaluations = 0
        self.distinct = set()
        self.samples = []
        self.violations = []      # unlisted
        self.known_hits = {}      # finding id -> count
        self.extra = {}
        self.assumptions = []
        self.rule = ""
        self.coverage_actions = {}
        self.deviations = []      # implementation departs from the MODEL although the property's observables hold
        self.findings = [f for f in _load_findings() if f.get("property") == pid]

    # ------------------------------------------------------------ TLC
    def tlc(self, module_path, cfg, *, name=None, workers=4, simulate=None, depth=None,
            env=None, timeout=3600, coverage=False, deque=False, extra_modules=(),
            heap=None, expect_violation=False, seed=None, dfid=None):
        """Run TLC on a module with the given cfg text. Returns TLCResult.

        module_path is relative to spec/ or absolute. All modules in the same
        spec directory plus spec/lib are copied into a private run directory.
        """
        src = module_path if os.path.isabs(module_path) else os.path.join(SPEC, module_path)
        mod = os.path.splitext(os.path.basename(src))[0]
        name = name or mod
        rd = os.path.join(self.work, "tlc-%s-%d" % (name, len(self.tlc_runs)))
        os.makedirs(rd)
        for d in (os.path.join(SPEC, "lib"), os.path.dirname(src)) + tuple(extra_modules):
            d = d if os.path.isabs(d) else os.path.join(SPEC, d)
            if os.path.isdir(d):
                for f in os.listdir(d):
                    if f.endswith(".tla"):
                        shutil.copy(os.path.join(d, f), rd)
            else:
                shutil.copy(d, rd)
        with open(os.path.join(rd, mod + ".cfg"), "w") as f:
            f.write(cfg)
        jopts = ["-XX:+UseParallelGC", "-Xss64m"]      # deep recursive operators (sums over tables): stack depth must not depend on the JIT
        if heap:
            jopts.append("-Xmx%s" % heap)
        if deque:
            jopts.append("-Dtlc2.tool.queue.IStateQueue=StateDeque")
        cmd = ["java"] + jopts + ["-cp", TLA_JAR + ":" + TLA_CM, "tlc2.TLC", "-workers", str(workers),
                                  "-metadir", os.path.join(rd, "meta"), "-noGenerateSpecTE", "-nowarning"]
        if coverage:
            cmd += ["-coverage", "1"]
        if simulate:
            cmd += ["-simulate", simulate]
        if dfid:
            cmd += ["-dfid", str(dfid)]
        if depth:
            cmd += ["-depth", str(depth)]
        if simulate or seed is not None:
            cmd += ["-seed", str(self.seed if seed is None else seed)]
        cmd += ["-config", mod + ".cfg", mod]
        e = dict(os.environ)
        e.pop("JAVA_TOOL_OPTIONS", None)
        if env:
            e.update(env)
        t = time.time()
        try:
            p = subprocess.run(cmd, cwd=rd, env=e, capture_output=True, text=True, timeout=timeout)
            out, rc = p.stdout + p.stderr, p.returncode
        except subprocess.TimeoutExpired as ex:
            out = (ex.stdout or b"").decode() if isinstance(ex.stdout, bytes) else (ex.stdout or "")
            if not simulate:
                raise MachineryError("TLC timeout on %s after %ds" % (name, timeout))
            rc = 0
        r = TLCResult(out, rc, time.time() - t)
        r.rundir = rd
        with open(os.path.join(rd, "tlc.out"), "w") as f:
            f.write(out)
        self.states += r.distinct
        self.transitions += r.generated
        self.tlc_runs.append({"name": name, "distinct": r.distinct, "generated": r.generated,
                              "wall_s": round(r.wall, 2), "violated": r.violated})
        for k, v in r.coverage.items():
            self.coverage_actions[name + "." + k] = self.coverage_actions.get(name + "." + k, 0) + v
        if r.error or r.assume_failed or (rc not in (0,) and not r.violated and not simulate):
            if not (r.violated or expect_violation):
                raise MachineryError("TLC failed on %s (rc=%s):\n%s" % (name, rc, r.trace_text()))
        return r

    # ------------------------------------------------------------ Apalache (inductive invariants, unbounded constants)
    def apalache(self, module_path, args, *, name=None, timeout=900, sed=None):
        """Run `apalache-mc check <args> <module>`; returns "ok", "violated" or raises MachineryError.
        sed: optional (old, new) text replacement applied to a private copy of the module (negative controls)."""
        src = module_path if os.path.isabs(module_path) else os.path.join(SPEC, module_path)
        mod = os.path.basename(src)
        rd = os.path.join(self.work, "apa-%s-%d" % (name or mod, len(self.tlc_runs)))
        os.makedirs(rd)
        text = open(src).read()
        if sed:
            if sed[0] not in text:
                raise MachineryError("negative control: pattern not found in " + mod)
            text = text.replace(sed[0], sed[1])
        with open(os.path.join(rd, mod), "w") as f:
            f.write(text)
        t = time.time()
        e = dict(os.environ)
        e.pop("JAVA_TOOL_OPTIONS", None)
        try:
            p = subprocess.run(["apalache-mc", "check"] + list(args) + ["--out-dir=" + os.path.join(rd, "out"), mod], cwd=rd, env=e,
                               capture_output=True, text=True, timeout=timeout)
        except subprocess.TimeoutExpired:
            raise MachineryError("apalache timeout on %s" % mod)
        out = p.stdout + p.stderr
        verdict = "ok" if "EXITCODE: OK" in out else ("violated" if "EXITCODE: ERROR (12)" in out or "Found a violation" in out or "violat" in out.lower() and "EXITCODE: ERROR" in out else None)
        self.tlc_runs.append({"name": "apalache:" + (name or mod), "args": " ".join(args), "verdict": verdict, "wall_s": round(time.time() - t, 2)})
        if verdict is None:
            raise MachineryError("apalache failed on %s:\n%s" % (mod, out[-1500:]))
        return verdict

    # ------------------------------------------------------------ verdicts
    def sample(self, s, cap=6):
        if len(self.samples) < cap:
            self.samples.append(s)

    def case(self, key=None, nontrivial=True):
        """Count one evaluation against the implementation."""
        self.evaluations += 1
        if nontrivial and key is not None:
            if len(self.distinct) < 2000000:
                self.distinct.add(key if isinstance(key, (str, int)) else hashlib.md5(repr(key).encode()).hexdigest())

    def deviation(self, what, detail=None):
        """The implementation is not a behaviour of the (deliberately precise) model, but every observable the property
        speaks about was checked and holds: recorded in evidence and printed, never a VIOLATION (DESIGN 10.5)."""
        if len(self.deviations) < 200:
            self.deviations.append({"what": what[:500], "detail": detail})
        else:
            self.deviations.append(None)

    def violation(self, what, replay, match=None):
        """Report an implementation behaviour the spec excludes.

        match: dict of classification keys compared with known_findings entries.
        """
        match = match or {}
        for f in self.findings:
            if f.get("status") == "open" and all(match.get(k) == v for k, v in f.get("match", {}).items()):
                fid = f.get("id") or f.get("what")
                self.known_hits[fid] = self.known_hits.get(fid, 0) + 1
                return False
        if len(self.violations) < 25:
            d = os.path.join(os.environ.get("VERIF_REPLAY_DIR") or os.path.join(VERIF, "replay"), self.pid)
            os.makedirs(d, exist_ok=True)
            path = os.path.join(d, "%s-%d-%d.json" % (self.tier, self.seed, len(self.violations)))
            with open(path, "w") as fh:
                json.dump({"property": self.pid, "what": what, "match": match, "replay": replay}, fh, indent=1, default=str)
            self.violations.append((what, path))
        else:
            self.violations.append((what, self.violations[0][1]))
        return True

    # ------------------------------------------------------------ finish
    def finish(self):
        wall = time.time() - self.t0
        cov = {
            "states": self.states, "transitions": self.transitions,
            "traces_validated_against_impl": self.traces_validated,
            "evaluations": self.evaluations, "distinct_nontrivial": len(self.distinct),
            "rule": self.rule, "samples": self.samples[:6] or ["(none)"],
            "tlc_runs": self.tlc_runs, "action_coverage": self.coverage_actions,
            "known_finding_hits": self.known_hits,
            "model_deviations": {"count": len(self.deviations), "samples": [d for d in self.deviations[:5] if d]},
        }
        cov.update(self.extra)
        ev = {"property_id": self.pid, "tier": self.tier, "seed": self.seed, "level": self.level,
              "coverage": cov, "assumptions": self.assumptions, "wall_s": round(wall, 2),
              "violations": len(self.violations)}
        evdir = os.environ.get("VERIF_EVIDENCE_DIR") or os.path.join(VERIF, "evidence")
        os.makedirs(evdir, exist_ok=True)
        with open(os.path.join(evdir, self.pid + ".json"), "w") as f:
            json.dump(ev, f, indent=1, default=str)
        for f in self.findings:
            fid = f.get("id") or f.get("what")
            if f.get("status") == "open" and self.known_hits.get(fid):
                print("KNOWN-FINDING: property=%s %s [%s; %d hits]" % (self.pid, f["what"], fid, self.known_hits[fid]))
        if self.deviations:
            first = next((d for d in self.deviations if d), {"what": ""})
            print("MODEL-DEVIATION: property=%s %d execution(s) are not behaviours of the model although the property's observables hold, e.g. %s" % (
                self.pid, len(self.deviations), first["what"][:300]))
        seen = set()
        for what, path in self.violations:
            if path in seen:
                continue
            seen.add(path)
            print("VIOLATION property=%s replay=%s" % (self.pid, path))
            print("  " + what[:400])
        shutil.rmtree(self.work, ignore_errors=True)
        print("%s %s: states=%d transitions=%d traces=%d evals=%d distinct=%d violations=%d known=%d wall=%.1fs" % (
            self.pid, self.tier, self.states, self.transitions, self.traces_validated, self.evaluations,
            len(self.distinct), len(self.violations), sum(self.known_hits.values()), wall))
        return 1 if self.violations else 0


def _load_findings():
    p = os.path.join(VERIF, "known_findings.json")
    if not os.path.exists(p):
        return []
    with open(p) as f:
        return json.load(f).get("findings", [])


def repo_env(extra=None):
    e = dict(os.environ)
    e["PYTHONPATH"] = os.path.join(REPO, "src") + ":" + REPO + ":" + VERIF
    e[GUARD] = "1"
    e.setdefault("PYTHONHASHSEED", "0")
    e["OMP_NUM_THREADS"] = "1"
    e["OPENBLAS_NUM_THREADS"] = "1"
    e["MKL_NUM_THREADS"] = "1"
    if extra:
        e.update(extra)
    return e
