"""Running the shipped mechanisms under RNG interposition (C05, C06, C20)."""
import contextlib, io, itertools, math
import numpy as np
import pandas as pd
from .pgm import Domain, Dataset
from . import rng as R


def dataset(records, attrs, sizes):
    weights = None
    if records and len(records[0]) == len(attrs) + 1:
        # weighted records: the last entry of each record is its weight
        weights = np.array([float(r[-1]) for r in records])
        records = [list(r[:-1]) for r in records]
    df = pd.DataFrame(records, columns=attrs, dtype=int) if records else pd.DataFrame({a: pd.Series([], dtype=int) for a in attrs})
    return Dataset(df, Domain(attrs, sizes), weights) if weights is not None else Dataset(df, Domain(attrs, sizes))


def neighbours(records, sizes, adjacency, rng, limit=None):
    """All neighbours under the adjacency notion: add/remove one record, or replace one record."""
    out = []
    cells = list(itertools.product(*[range(n) for n in sizes]))
    if adjacency == "addremove":
        for i in range(len(records)):
            out.append(("remove#%d" % i, records[:i] + records[i + 1:]))
        for c in cells:
            out.append(("add%s" % (c,), records + [list(c)]))
    else:
        for i in range(len(records)):
            for c in cells:
                if list(c) != list(records[i]):
                    out.append(("replace#%d->%s" % (i, c), records[:i] + [list(c)] + records[i + 1:]))
    if limit and len(out) > limit:
        out = rng.sample(out, limit)
    return out


def run_mechanism(name, params, records, attrs, sizes, interposer, iters_cap=25):
    """Returns (output Dataset or None, error string or None). Events are in interposer.events."""
    data = dataset(records, attrs, sizes)
    out, err = None, None
    with contextlib.redirect_stdout(io.StringIO()), np.errstate(all="ignore"), interposer.active(), R.capped_iters(iters_cap):
        try:
            if name == "MST":
                m = R.load_mechanism("mst")
                out = m.MST(data, params["epsilon"], params["delta"])
            elif name == "AIM":
                m = R.load_mechanism("aim")
                wl = [(tuple(c), 1.0) for c in params.get("workload") or itertools.combinations(attrs, 2)]
                kw = {"structural_zeros": {tuple(k_.split(",")): [tuple(c_) for c_ in v_] for k_, v_ in params["structural_zeros"].items()}} if params.get("structural_zeros") else {}
                if params.get("prng"):
                    kw["prng"] = np.random          # callers that hand the mechanism their random source
                mech = m.AIM(params["epsilon"], params["delta"], rounds=params.get("rounds"), max_model_size=params.get("max_model_size", 80), **kw)
                out = mech.run(data, wl)
            elif name == "MWEM":
                m = R.load_mechanism("mwem+pgm")
                out = m.mwem_pgm(data, params["epsilon"], params.get("delta", 0.0), workload=params.get("workload"),
                                 rounds=params.get("rounds"), pgm_iters=iters_cap, noise=params.get("noise", "gaussian"),
                                 bounded=params.get("bounded", False), alpha=params.get("alpha", 0.9))
            elif name == "AdaGrid":
                m = R.load_mechanism("adaptive_grid")
                out = m.adagrid(data, params["epsilon"], params["delta"], params.get("threshold", 5.0), targets=list(params.get("targets", [])),
                                split_strategy=params.get("split_strategy"), iters=iters_cap)
            else:
                raise ValueError(name)
        except R.Diverged as ex:
            err = "diverged: %s" % ex
        except Exception as ex:        # a crash of the mechanism itself
            err = "raised %r" % ex
    return out, err


def budget(name, params):
    """(mode, budget): zCDP rho for Gaussian-noise mechanisms (via the mechanism's own conversion), pure epsilon for MWEM+laplace."""
    if name == "MWEM" and params.get("noise") == "laplace":
        return "pure", params["epsilon"]
    cdp = R.load_mechanism("cdp2adp")
    return "zcdp", cdp.cdp_rho(params["epsilon"], params["delta"])


def ledger(ev1, ev2, mode):
    """Charge every primitive by the ACTUAL change between the two runs (DESIGN C05). Returns list of per-event costs."""
    p1 = [e for e in ev1 if e["e"] in ("Release", "Select")]
    p2 = [e for e in ev2 if e["e"] in ("Release", "Select")]
    costs = []
    for a, b in zip(p1, p2):
        if (a["e"] != b["e"] or (a["e"] == "Release" and (np.shape(a["x"]) != np.shape(b["x"]) or a["scale"] != b["scale"] or a["kind"] != b["kind"]))
                or (a["e"] == "Select" and len(a["p"]) != len(b["p"]))):
            # the two runs do not even perform the same primitive on same-shaped operands with the same noise scale: the schedule
            # itself depends on the data and nothing was charged for that
            costs.append({"e": a["e"], "kind": a.get("kind", ""), "scale": a.get("scale", 0.0), "shape_mismatch": True, "cost": math.inf})
            break
        if a["e"] == "Release":
            d = a["x"] - b["x"]
            if a["kind"] == "gaussian":
                c = float(d @ d) / (2 * a["scale"] ** 2)
                costs.append({"e": "Release", "kind": "gaussian", "scale": a["scale"], "d2": float(d @ d), "cost": c if mode == "zcdp" else math.inf if d.any() else 0.0})
            else:
                c = float(np.abs(d).sum()) / a["scale"]
                costs.append({"e": "Release", "kind": "laplace", "scale": a["scale"], "d1": float(np.abs(d).sum()),
                              "cost": c if mode == "pure" else c * c / 2.0})     # eps-DP implies (eps^2/2)-zCDP
        else:
            pa, pb = np.asarray(a["p"]), np.asarray(b["p"])
            with np.errstate(all="ignore"):
                lr = np.log(pa) - np.log(pb)
            lr = lr[np.isfinite(lr) | (pa > 0) | (pb > 0)]
            lr = np.where(np.isnan(lr), 0.0, lr)
            if lr.size == 0:
                eta, mx = 0.0, 0.0
            else:
                eta, mx = float(lr.max() - lr.min()), float(np.abs(lr).max())
            costs.append({"e": "Select", "eta": eta, "maxabs": mx, "cost": eta * eta / 8.0 if mode == "zcdp" else mx})
    return costs
