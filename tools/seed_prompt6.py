#!/usr/bin/env python3
"""Sixth-round prompt: one subtle change, avoiding the ideas already tried."""
import json, sys, os, glob
pid = sys.argv[1]
for l in open('/verif/properties.jsonl'):
    p = json.loads(l)
    if p['id'] == pid:
        break
wt = "/tmp/seed6/%s" % pid
out = "/tmp/seedout6/%s" % pid
tried = []
for d in sorted(glob.glob('/verif/seeded/%s-*' % pid)):
    n = os.path.join(d, 'notes.md')
    if os.path.exists(n):
        t = ' '.join(open(n).read().split())
        tried.append('- ' + t[:200])
tried = '\n'.join(tried) or '- (none)'
print(f"""You are helping test a verification effort for the open-source Python library private-pgm (ryan112358/private-pgm: graphical-model inference from noisy marginals plus differential-privacy mechanisms). You have your own scratch git worktree of the repository at {wt} (work ONLY there; never touch /repo or /verif, and do not read anything under /verif).

Here is a semantic property the library is supposed to satisfy:

  Title: {p['title']}
  Statement: {p['statement']}
  Quantified over: {p['quantifier']['text']}
  Main files: {', '.join(p['anchors']['files'])}

Your task: produce TWO independent, realistic code changes ("a" and "b") to the library in {wt}, each of which BREAKS this property while the code still imports and the repository's existing test suite still passes exactly as before. They must be SUBTLE: the kind of bug that survives code review and casual use - it should need something quite specific to manifest (a particular combination of inputs or parameters, a multi-step history of calls on one object, a particular order/schedule, a boundary value, an interaction of two code sites that each look fine alone, state left behind by an earlier call, a numerical corner such as a tie or an exact zero). Prefer changes whose effect is QUANTITATIVELY SMALL or RARE rather than blatant, and that touch different code sites from each other. Earlier attempts already tried the following ideas - do NOT repeat them or close variants, find different mechanisms and different code sites (other functions of the main files, or helper code they rely on in src/mbi/*.py and mechanisms/*.py):
{tried}

Keep each change small (a few lines). Do not touch the tests. The tree contains tracing hooks guarded by the environment variable PRIVATE_PGM_VERIF (module src/mbi/_verif_trace.py and `if _vt.ON ...` / `if _vt is not None ...` lines): leave those lines alone and do not rely on them.

Environment facts:
- Run Python as: cd {wt} && PYTHONPATH={wt}/src:{wt} /venv/bin/python ...   (check `import mbi; print(mbi.__file__)` points into {wt}; an editable install of /repo exists, PYTHONPATH must override it)
- Existing test suite: cd {wt} && PYTHONPATH={wt}/src:{wt} /venv/bin/python -m pytest -q -p no:cacheprovider --timeout=900 --continue-on-collection-errors    Baseline on the unchanged tree: 32 passed, 12 skipped. With your change the same 32 tests must pass.
- No network. Not installed: torch, jax, cvxopt, autodp, hdmm. mechanisms/mechanism.py imports autodp and mechanisms/aim.py imports hdmm, so to import those modules in a demo you must stub them in sys.modules first (a module autodp.privacy_calibrator with ana_gaussian_mech(eps, delta) returning {{'sigma': ...}}, and hdmm.matrix.Identity = lambda n: scipy.sparse.eye(n)).
- mechanisms/adaptive_grid.py assigns to `Q.T` of a scipy csr_matrix, which this scipy forbids; a demo that runs that mechanism must patch scipy.sparse.csr_matrix.T with a settable property (environment incompatibility, not something to exploit).
- Never use `git stash` (shared between worktrees); use `git diff > file`, `git checkout -- .` and `git apply`.
- Known pre-existing weaknesses of the unchanged tree that your demo must steer around (do not build on them): AIM with rounds < 0.9*(number of attributes) overspends; GBP (RegionGraph convex=False) is inexact when potentials sit on non-maximal regions; mirror descent with a total far below what the measurements imply drives potentials to huge magnitudes; LocalInference with iters=1 can be worse than uniform, and its restart logic can recurse without bound (RecursionError) on hard nested instances; synthetic_data may be off by one record in a cell whose expected count is an exact integer; the convex region-graph oracle loses normalisation when a log-potential is -inf; PublicInference reused for a second estimate call warm-starts from its previous weights and may then fit worse than uniform, and on public data whose records are all identical on the measured attributes its weights can lose their normalisation; LocalInference with fewer than about 50 iterations may return a last step that fits worse than uniform.

For each change X in {{a, b}} write into {out}/X/ :
  - patch.diff   : `git diff` of the change relative to HEAD (apply-able with `git apply` at the repo root)
  - demo.py      : a small standalone program, run as `PYTHONPATH=<tree>/src:<tree> /venv/bin/python demo.py`, that exits 0 (prints PASS) on the unchanged tree and exits non-zero (prints FAIL and why) with the change applied; it must test the PROPERTY as stated above (not an implementation detail), deterministically, and finish within 3 minutes.
  - notes.md     : 5-10 lines: what was changed, why it breaks the property, exactly what it needs in order to manifest (which inputs/sequence) and which inputs do NOT expose it.
Verify yourself: (1) demo passes on a clean tree, (2) fails with the patch, (3) the 32 baseline tests still pass with the patch. After saving each patch, revert the worktree (git checkout -- .) so the two patches are independent. Finish by replying with a 3-line summary per change.""")
