#!/usr/bin/env python3
"""tools/mut1.py <Cxx> <file> '<OLD ==> NEW>' [tier] : one text mutant on a scratch worktree (never /repo); prints the check's tail."""
import os, subprocess, sys, tempfile, shutil
V = os.path.dirname(os.path.dirname(os.path.abspath(__file__)))
prop, path, repl = sys.argv[1:4]
tier = sys.argv[4] if len(sys.argv) > 4 else "quick"
old, new = [x.replace("\\n", "\n") for x in repl.split(" ==> ")]
wt = tempfile.mkdtemp(prefix="mutwt-", dir="/tmp"); os.rmdir(wt)
subprocess.run(["git", "-C", "/repo", "worktree", "add", "-q", "--detach", wt, "HEAD"], check=True)
try:
    f = os.path.join(wt, path); s = open(f).read()
    assert old in s, "pattern not found"
    open(f, "w").write(s.replace(old, new, 1))
    env = dict(os.environ, VERIF_REPO=wt, VERIF_EVIDENCE_DIR=wt + ".out/evidence", VERIF_REPLAY_DIR=wt + ".out/replay")
    r = subprocess.run([os.path.join(V, "bin", "check"), prop, "--tier", tier], cwd=V, env=env, capture_output=True, text=True)
    out = [l for l in (r.stdout + r.stderr).splitlines() if l.strip() and "WARNING" not in l and "Warning" not in l and "warnings.warn" not in l]
    print("\n".join(l[:int(os.environ.get("CUT", "300"))] for l in out[-int(os.environ.get("TAILN", "6")):])); print("exit=%d" % r.returncode)
finally:
    subprocess.run(["git", "-C", "/repo", "worktree", "remove", "--force", wt]); shutil.rmtree(wt + ".out", ignore_errors=True)
