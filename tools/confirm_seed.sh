#!/bin/bash
# tools/confirm_seed.sh <seedout-dir e.g. /tmp/seedout/C12/a> <name e.g. C12-a> <property>
# Confirms in a scratch worktree of /repo HEAD: demo passes clean, fails with patch, baseline tests still pass with patch.
set -u
SRC="$1"; NAME="$2"; PROP="$3"
WT=/tmp/seedchk-$$
git -C /repo worktree add -q --detach $WT HEAD || exit 3
run() { (cd $WT && PYTHONPATH=$WT/src:$WT timeout 900 /venv/bin/python "$SRC/demo.py" >/tmp/seedchk-$$.out 2>&1; echo $?); }
clean_rc=$(run)
(cd $WT && (git apply "$SRC/patch.diff" 2>/dev/null || patch -p1 -F3 -s < "$SRC/patch.diff")) || { echo "$NAME: PATCH DOES NOT APPLY"; git -C /repo worktree remove --force $WT; exit 3; }
mut_rc=$(run)
tests=$(cd $WT && PYTHONPATH=$WT/src:$WT env -u PRIVATE_PGM_VERIF /venv/bin/python -m pytest -q -p no:cacheprovider --timeout=900 --continue-on-collection-errors 2>&1 | tail -1)
(cd $WT && git diff) > /tmp/seedchk-$$.diff
git -C /repo worktree remove --force $WT
echo "$NAME: demo clean rc=$clean_rc, with patch rc=$mut_rc, tests: $tests"
if [ "$clean_rc" = 0 ] && [ "$mut_rc" != 0 ] && echo "$tests" | grep -Eq "3[12] passed"; then
  D=/verif/seeded/$NAME; mkdir -p $D
  cp /tmp/seedchk-$$.diff $D/patch.diff; cp "$SRC/demo.py" $D/demo.py; cp "$SRC/notes.md" $D/notes.md 2>/dev/null
  python3 - "$D" "$NAME" "$PROP" "$clean_rc" "$mut_rc" "$tests" <<'PY'
import json, sys, os
d, name, prop, c, m, t = sys.argv[1:7]
notes = open(os.path.join(d, 'notes.md')).read() if os.path.exists(os.path.join(d, 'notes.md')) else ''
json.dump({"name": name, "breaks_property": prop, "needs_to_manifest": notes,
           "confirmed": {"worktree": "scratch git worktree of /repo HEAD (with hooks), removed afterwards",
                         "demo_clean_rc": int(c), "demo_with_patch_rc": int(m), "baseline_tests_with_patch": t,
                         "commands": ["PYTHONPATH=<wt>/src:<wt> /venv/bin/python demo.py", "git apply patch.diff",
                                      "env -u PRIVATE_PGM_VERIF /venv/bin/python -m pytest -q -p no:cacheprovider --timeout=900 --continue-on-collection-errors"]},
           "detected_by": []}, open(os.path.join(d, 'meta.json'), 'w'), indent=1)
PY
  echo "$NAME: KEPT"
else
  echo "$NAME: NOT KEPT"
fi
rm -f /tmp/seedchk-$$.out /tmp/seedchk-$$.diff
