#!/usr/bin/env python3
"""tools/seedalt.py <seed> <Cxx> ... : run a kept seed against ANOTHER property's check and append the outcome to its meta.json."""
import json, os, subprocess, sys
V = os.path.dirname(os.path.dirname(os.path.abspath(__file__)))
for name, prop in zip(sys.argv[1::2], sys.argv[2::2]):
    d = os.path.join(V, "seeded", name)
    meta = json.load(open(os.path.join(d, "meta.json")))
    out = subprocess.run([os.path.join(V, "tools", "seedtest.sh"), d, prop], capture_output=True, text=True, env=dict(os.environ, TAILN="6")).stdout
    lines = [l for l in out.splitlines() if l.strip()]
    rc = next((l for l in lines if l.startswith("exit=")), "exit=?")
    first = next((l.strip() for l in lines if not l.startswith(("VIOLATION", "exit=", "KNOWN", " 1 file", " 2 files")) and "quick:" not in l and "vals =" not in l), "")
    meta["detected_by"] = [x for x in meta.get("detected_by", []) if x.get("check") != prop] + [{"check": prop, "tier": "quick", "exit": rc, "first_violation": first[:400]}]
    json.dump(meta, open(os.path.join(d, "meta.json"), "w"), indent=1)
    print(name, prop, rc, first[:120])
