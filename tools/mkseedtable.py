#!/usr/bin/env python3
"""Rewrites section 10.6 of DESIGN.md (between markers) from seeded/*/meta.json."""
import glob, json, os, re
V = os.path.dirname(os.path.dirname(os.path.abspath(__file__)))
rows = []
for d in sorted(glob.glob(os.path.join(V, "seeded", "C*"))):
    m = json.load(open(os.path.join(d, "meta.json")))
    notes = " ".join((m.get("needs_to_manifest") or "").split())
    first = re.split(r"(?<=[.!?])\s", notes.lstrip("# ").strip())
    what = " ".join(first[:2])[:230]
    det = m.get("detected_by") or []
    how = "; ".join("%s %s (%s): %s" % (x["check"], x["tier"], x["exit"], " ".join(x["first_violation"].split())[:150]) for x in det) or "(not yet re-run)"
    rows.append("| %s | %s | %s | %s |" % (m["name"], m["breaks_property"], what.replace("|", "/"), how.replace("|", "/")))
table = "| seed | property | change (from the author's notes) | caught by (first report) |\n|------|----------|-----------------------------------|--------------------------|\n" + "\n".join(rows)
p = os.path.join(V, "DESIGN.md")
s = open(p).read()
begin, end = "<!-- SEEDTABLE:BEGIN -->", "<!-- SEEDTABLE:END -->"
block = begin + "\n" + table + "\n" + end
if begin in s:
    s = s[:s.index(begin)] + block + s[s.index(end) + len(end):]
else:
    s += "\n### 10.6 Seeded changes and the checks that catch them\n\nEvery entry was written by an independent sub-agent that saw only the property text and its own scratch worktree, was confirmed in a scratch worktree (demo passes clean, fails with the patch, the 32 baseline tests still pass) and is kept under `seeded/<name>/`. Seeds are run with `tools/seedtest.sh` on a scratch worktree (`VERIF_REPO`), never on `/repo`. Round 1 = suffixes a, b; round 2 (asked for subtler changes, told what had been tried) = c, d. Checks strengthened because a seed was first missed: C15 (frame variants), C19 (independent loss oracle, negative estimated totals), C18 (nested three-level instances, second call on one object, edge-averaged feasibility), C16 (reassigned totals), C08 (branching trees, 5-cycles, warm histories with early exits), C03 (second call, 4-attribute trees, scaled instances), C01/C12 (5-cycles), C02 (record generation in histories, weighted single-row Kronecker factors), C04 (warm histories, noise scaling law), C05 (adversarial datasets, uncovered workloads), C09 (estimates below 1, repeated marginals, call histories).\n\n" + block + "\n"
open(p, "w").write(s)
print(len(rows), "seeds")
