#!/usr/bin/env python3
"""Regenerates MANIFEST.json from the table below (single source of truth)."""
import json, os
V = os.path.dirname(os.path.dirname(os.path.abspath(__file__)))
ALL = ["C%02d" % i for i in range(1, 21)]

CHECKS = {
 "C12": dict(
    technique="TLA+ model (spec/jt/JunctionTree.tla) checked exhaustively by TLC; TLC-enumerated (structure, order, admissible trees) replayed on JunctionTree; recorded trees/schedules validated by spec/jt/JTTrace.tla",
    category="model_checking", design_ref="4 C12",
    text="TLC checks Covers/AllAttrs/Antichain/IsTree/RunningIntersection/Progress/DepRespect for every labelled graph on <=4 (thorough 5) attributes x every elimination order x every max-weight tree x every message schedule, plus greedy mode with sizes in {1,2,3} and a hyper-clique catalogue. Every enumerated (structure, order) is executed on the real JunctionTree (permuted/duplicated/nested spellings) and compared with the spec's maximal cliques and admissible-tree set; the code's own None/int modes on enumerated and random 5-8 attribute clique sets are validated event by event (Eliminate with greedy cost-minimality, Tree validity, Send dependency rule) by the trace spec.",
    note="Trusts TLC, the JSON bridge and networkx being observed not modelled (any max-weight tree allowed). int mode: validity of the chosen order only."),
 "C01": dict(
    technique="TLA+ integer sum-product model (spec/bp/BeliefProp.tla) model-checked by TLC over every message schedule/tree/zero pattern; behaviours replayed on GraphicalModel.belief_propagation (message_order overwritten, hook H1); H1 traces validated by spec/bp/BPTrace.tla",
    category="model_checking", design_ref="4 C01",
    text="TLC checks Exact/SameZ/AbsorbOK/DivOK/MsgMeaning/BeliefMeaning in the integer semiring (0 = -inf, 0/0 := 0) for a catalogue of cyclic, disconnected, nested, duplicated and permuted clique structures x every junction tree the implementation builds over all elimination orders x zero patterns x EVERY dependency-respecting message schedule. Each completed behaviour is replayed on the real code with the schedule imposed, potentials ln w + K (K up to +-5000, weights^40, cancelling +-1500 spreads), comparing every message and the final marginals/logZ with the spec's integers; the code's own schedules on random 3-7 attribute models are validated message by message by the trace spec.",
    note="Trusts TLC, the JSON bridge, numpy backend only; instances bounded to Z < 2^30; float comparison 1e-9 relative."),
 "C14": dict(
    technique="TLA+ transcription of the factor algebra (spec/factor/FactorAlgebra.tla: result layout + by-name addressing map per operation; FactorStore.tla: in-place sequences) enumerated by TLC, one implementation test per transition",
    category="model_checking", design_ref="4 C14",
    text="TLC enumerates every ordered attribute-subset pair (sizes 2,3,1; thorough adds a 4th attribute) x 22 operations x every argument and checks the addressing laws (layout, merge order, partition, requested order, bijection); every transition is executed on real Factor/CliqueVector objects with distinct cell values and compared cell by cell and axis by axis (== for integer operations); all in-place sequences of length <= 2 (thorough 3) on two objects are replayed step by step against the integer store model.",
    note="Scalar functions (exp, log, logaddexp, logsumexp) are evaluated by the driver with math/numpy; the spec decides which cells meet. Views returned by transpose/condition/expand are out of scope for in-place checks."),
 "C15": dict(
    technique="TLA+ specs of the domain algebra and of weighted contingency tables (spec/data/DomainAlgebra.tla, Contingency.tla) checked exhaustively by TLC on small carriers; every state replayed on Domain / Dataset with ==",
    category="model_checking", design_ref="4 C15",
    text="TLC checks the merge/complement/canonical/size/sort/axes laws for every pair of domains over 4 attributes (sizes 2,3,1,2; all attribute orders) and the commutation law Vector(project(D,s)) = transpose(marg(Vector(D))) for every record bag of size <= 3 (thorough 4) x weights x every projection sequence; each enumerated state is executed on the real Domain/Dataset (frame columns permuted, with/without an unused column, ndarray weights, list/tuple/str spellings) and compared with ==.",
    note="Dataset projection onto the empty attribute list is not exercised. pandas/numpy histogramdd are observed, not modelled."),
 "C02": dict(
    technique="TLA+ specs of the query API (spec/query/ModelQuery.tla call histories x cache states; VarElim.tla all elimination orders; PairChain.tla bulk recurrence with a non-RIP negative control) model-checked by TLC; every behaviour replayed on one GraphicalModel against the explicit integer joint",
    category="model_checking", design_ref="4 C02",
    text="TLC enumerates, for 9 (thorough 13) clique structures, every attribute sequence (all subsets x orders, incl. empty and full) in both cache states and all call histories of length 2 (thorough 3) over project / calculate_many_marginals / krondot / datavector / save+load, checking HistoryFree and SumsToZ; VarElim.tla shows every elimination order yields the joint's marginal; PairChain.tla shows the bulk recurrence holds on the implementation's trees and fails on a tree without running intersection. Each history is replayed on one real model object (random elimination order, domain order, total) and every answer compared at 1e-9 with the integer marginal x total/Z in the requested axis order; cache/pair/ve path coverage is measured.",
    note="Spec->code only (the API exposes the full abstract state, so no recorded-trace direction). numpy backend; krondot not claimed robust to huge potentials."),
 "C04": dict(
    technique="TLA+ integer model of the loss, gradient and smoothness constant (spec/est/Loss.tla) checked by TLC (ExactlyOnce, GradIsDerivative by exact central differences, SmoothnessBound by Rayleigh quotients); expected values compared with _marginal_loss/_lipschitz/groups for every measurement spelling",
    category="model_checking", design_ref="4 C04",
    text="Seeded measurement sets over 3-attribute domains (catalogue of 8 integer query matrices, noise 1/2,1,2, projections in any order incl. both orders of a pair) are checked in Loss.tla by TLC: each measurement counted once, the spec gradient is the exact finite difference of the spec loss, and v'Hv <= L v'v on every clique block for all directions in {-1,0,1,2}^cells. The real engine must reproduce the spec's L2 and L1 loss and joint-level gradient for dense/sparse/operator/None x str/list/tuple spellings, its own gradient must be the exact central difference of its own loss, and _lipschitz must dominate the Hessian assembled from its own gradients.",
    note="Noise scales and matrices restricted so the spec loss is an integer; eigsh accuracy observed; custom callable metrics out of scope."),
 "C09": dict(
    technique="TLA+ spec of total estimation with witness-certified query catalogue (spec/est/Total.tla, TotalHistory.tla) model-checked by TLC (every witness verified exactly; NoiseFree/AtLeastOne/NoUsable); exact rational totals replayed on all importable copies of the estimator",
    category="model_checking", design_ref="4 C09",
    text="TLC verifies the row-space witness (Q^T v = 1 and v = Q w, or Fredholm certificate) of every catalogue matrix of size 1-3 (identity, scaled, prefix, total, stacked, identity+total, blocks, rank-deficient without ones, column, random unimodular) and enumerates every measurement list of length <= 2 x noise variances x dataset sizes x noise-free/perturbed, checking that noise-free data give exactly N and printing the exact rational inverse-variance estimate; each list is executed on FactoredInference, LocalInference and public_inference.estimate_total with dense/sparse/operator spellings (1e-8). Sizes 4-64 reuse the families with witnesses verified in Fraction arithmetic by a transliteration cross-checked against TLC. Call histories (supplied/omitted totals, warm start on/off) on one engine are enumerated by TotalHistory.tla.",
    note="lsmr observed, not modelled; mixture_inference not importable (jax)."),
 "C08": dict(
    technique="TLA+ control-flow model of the three solvers with ghost versioning (spec/est/Solvers.tla; Coherent on every exit path) model-checked by TLC; hook-H2 event streams of real runs validated by spec/est/SolverTrace.tla; returned models checked numerically for coherence",
    category="model_checking", design_ref="4 C08",
    text="TLC explores MD/RDA/IG x iteration counts 1-3 x line search on/off x every comparison outcome (forced accept on the 25th trial, zero-loss and zero-Lipschitz exits) and checks that the stored (parameters, marginals) pair is always a legal pair. Every seeded estimation run (3-5 attributes incl. branching junction trees, 0-5 measurements incl. the empty list, totals given/estimated, structural zeros, iteration counts 1,2,3,50, constant step sizes) is traced through hook H2 and its event stream must be a behaviour of the spec (trial counters, exact step-size exponents, branch = comparison, stored pair = last trial's BP pair / averaged iterate); the returned model must satisfy marginals = BP(parameters), and every answer over all attribute subsets must be finite, non-negative, sum to total, agree with the model's own joint and with every other answer.",
    note="numpy backend; object identities renumbered per trace; known finding F15 (unbounded step size at a boundary optimum) is listed in known_findings.json."),
 "C10": dict(
    technique="TLA+ abstract-interpretation model of a declared-zero cell flowing through every solver statement and warm-start history (spec/est/ZeroFlow.tla; ZeroStaysZero, NoNaN) model-checked by TLC; its transfer table replayed per transition on real Factor operations; estimators run end to end on enumerated zero placements x solvers x histories",
    category="model_checking", design_ref="4 C10",
    text="TLC explores the abstract extended-real flow (-inf, finite, log(1e-100), +-1.8e308 from nan_to_num, +inf, nan) of one structurally impossible cell through MD/RDA/IG (0-2 iterations, early exits, mle with its 1e-100 smoothing) and warm/cold histories of length <= 3 mixing solvers, checking that no returned representation gives it mass and NaN is unreachable; every row of the transfer table of Factor +, -, scalar*, CliqueVector - is executed on real Factors. End to end, zero sets on a measured clique, a sub-clique and an unmeasured pair (scattered cells, whole rows/columns that kill a separator value) are estimated with every solver through cold, warm, shrinking and growing histories; in-clique and out-of-clique answers, the full vector and synthetic records must give the declared cells mass <= 1e-12 x total, sum to total and contain no NaN.",
    note="Assumes finite values stay finite (no overflow by magnitude). Synthetic data checked with 200 rows."),
 "C13": dict(
    technique="TLA+ model of the engine object's fields, the reads/writes of each estimate call and the hand-off of result objects (spec/est/EngineHistory.tla; HistoryFree, SnapshotsStable) model-checked by TLC; every enumerated call history replayed on one engine against fresh engines, snapshots and deep copies of the inputs",
    category="model_checking", design_ref="4 C13",
    text="TLC enumerates every history of estimate calls of length 2 (thorough: plus 1500 of length 3) over 6 measurement lists (same structure with other answers, other query spectrum, grown, shrunk, re-spelled) x total omitted/given x MD/RDA/IG, cold and warm, checking that a cold call reads no field written by an earlier call and that no write targets a handed-out model. Each history is executed on ONE FactoredInference object with structural zeros: every cold result must equal a fresh engine's result on all attribute subsets and the joint (1e-10 x total), every model returned earlier is re-queried after each later call, returned objects must be distinct, and the caller's lists, arrays, zero specification and options are compared with deep copies. Warm engines must reach the cold optimum (loss within 1e-4) on grown or changed lists.",
    note="The spec's write sets are a transcription of _setup/estimate; the replay is what binds them. eigsh start vectors absorbed by the 1e-10 slack."),
 "C03": dict(
    technique="TLA+ optimality oracle (spec/est/OptInstances.tla: KKT certificate in integers, model-checked against brute force: OracleSound, GapBound) supplying exact optima for real solver runs; line search bound by spec/est/Solvers.tla + SolverTrace.tla; arbitrary inputs decided by the gap bound the spec validates",
    category="model_checking", design_ref="4 C03",
    text="TLC certifies candidate (witness table, measurement set) pairs from six constructive families (realisable, replicated and nested with cancelling weighted residuals, boundary optima, cyclic, random perturbations) by checking the KKT conditions in integer arithmetic, and on the small instances confirms by brute force over every non-negative integer table with the same total that no table does better (OracleSound) and that L(q)-L* <= sum q (G_q - min G_q) (GapBound). Each certified instance is estimated with MD, RDA and IG (3000 iterations; a third of them after an earlier call with other answers on the same engine); the loss recomputed from model.project must lie in [L*-1e-9, L*+1e-4 max(1,L0-L*)] and agree with the loss of model.datavector; runs of 1,2,5,50 iterations must not be worse than uniform and their hook-H2 streams must be behaviours of the line-search spec. Noisy inputs with given or estimated total are decided by the gap bound (<= 1e-2 of its value at the uniform start).",
    note="Level for the convergence clause: exploration against a model-checked oracle (fixed 3000 iterations; rate not derived). Gap bound evaluated in floats by the driver. L2 metric only."),
 "C11": dict(
    technique="TLA+ spec of column-by-column record generation (spec/synth/Synthetic.tla: Separation and CondFaithful for every structure x elimination order, apportionment outcomes) model-checked by TLC; hook-H3 traces validated by spec/synth/SynthTrace.tla; n-independent rounding bound checked on real runs",
    category="model_checking", design_ref="4 C11",
    text="TLC checks, for every clique structure of the catalogue and EVERY elimination order, that the conditioning set the code uses separates the new column from the other generated columns in the triangulated graph and that the corresponding marginal identity P(col|used)=P(col|proj) holds in the integer semiring, and that every +1-on-distinct-fractional-cells outcome is an apportionment with error < 1. Real synthetic_data runs (zero-probability cells, totals, rows 1..1e4 (thorough 1e6), round/sample, repeated calls on a model with cached marginals) are checked for row count, value ranges, empty impossible cells and an n-independent rounding bound on every clique; their H3 traces must name exactly the spec's conditioning sets, condition on exactly the joint's integer marginal at each group, and produce an apportionment (round) or a histogram supported on the positive cells (sample).",
    note="numpy's samplers are trusted (no statistical test); traces validated for rows <= 400 (32-bit TLC integers)."),
 "C05": dict(
    technique="TLA+ privacy ledger with each mechanism's published budget arithmetic (spec/dp/Ledger.tla; AIM's adaptive annealing explored exhaustively by TLC) and trace validation (spec/dp/LedgerTrace.tla) of ledgers recorded from lock-step runs on neighbouring datasets under RNG interposition",
    category="model_checking", design_ref="4 C05",
    text="TLC explores the AIM budget machine over every annealing history (d 1-4, rounds 4-64: WithinBudget, RemainderOK, Progress) with a negative control for rounds < 0.9 d, and states the fixed schedules of MST, MWEM+PGM and AdaGrid in budget micro-units. Every mechanism is executed on seeded datasets (<= 6 records, empty, one-cell, an adversarial dataset for score sensitivity) and re-executed on their neighbours (add/remove-one, or replace-one for bounded MWEM) while observing identical released values and selections; each primitive is charged by the ACTUAL change of its operand (Gaussian: |dx|^2/2s^2, Laplace: |dx|_1/b) or of its selection probabilities (bounded range eta: eta^2/8, or max log-ratio under pure DP). LedgerTrace.tla requires the published sequence of primitives, the published noise scale at every position, actual <= design charge for every primitive and cumulative design charge <= budget.",
    note="autodp/hdmm stand-ins and a settable csr_matrix.T shim (environment); estimator iterations capped (post-processing); cdp_rho trusted here (C07). Known finding F7 listed."),
 "C06": dict(
    technique="TLA+ taint model of the four mechanisms (spec/dp/NonInterference.tla: 2-safety reduced to NoLeak/PublicStaysPublic) model-checked by TLC; pairs of real executions on neighbouring datasets replaying identical observations validated by spec/dp/NITrace.tla",
    category="model_checking", design_ref="4 C06",
    text="TLC checks, on a statement-level transcription of MST, AIM, MWEM+PGM and AdaGrid, that no branch condition, noise scale, candidate set or output is tainted by the private data except through a release or selection (bounded MWEM's record count is the one named exception). Each mechanism is then run on seeded datasets (incl. empty, one-cell, constant-attribute, noise-dominated) and re-run on all (quick: 5 sampled) neighbours made to observe the recorded released values, selected indices and post-processing draws; NITrace.tla requires identical primitive sequences (kind, distribution, bitwise scale, operand shape, candidate count), identical post-processing randomness and identical returned data, conforming to the input's original domain. A replay that cannot consume the recorded observations is a violation.",
    note="Timing/memory side channels out of scope; shims as in C05."),
 "C20": dict(
    technique="TLA+ spec of the selection law on power-of-two quality lattices (spec/dp/Selection.tla: exact rationals; ShiftInvariant, Normalised, Symmetric, Monotone, Doubling) model-checked by TLC; every enumerated vector replayed into every selection primitive with the sampler's p= argument captured",
    category="model_checking", design_ref="4 C20",
    text="TLC enumerates every quality vector of length 1-3 (thorough 4) over an exponent lattice x base measures x shifts and checks the algebraic laws of P(i) = b_i 2^k_i / sum; each vector is passed as qualities k ln2 s/(coef eps) (+ shifts up to 5e5) to Mechanism.exponential_mechanism (array, dict, dict with base_measure in another key order), mst/adaptive_grid exponential_mechanism (standard and monotonic), mwem worst_approximated (bounded x penalty) and AIM.worst_approximated, and the p= vector handed to the sampler must equal the rational law (1e-12 plus the rounding of the inputs) and the returned key must be the sampled one; extreme magnitudes (1e6 gaps, all-negative penalised scores), eps=inf and the noise-scale helpers / sampler arguments are checked directly.",
    note="autodp calibrator replaced by a stand-in (only linearity and the bounded doubling of gaussian_noise_scale are checked); permute_and_flip and generalized_exponential_mechanism not covered; numpy's generators trusted."),
 "C07": dict(
    technique="TLA+ spec of bisection over every monotone predicate on a grid (spec/dp/Bisect.tla: SoundEnd, Tight) model-checked by TLC; hook-H6 iteration traces with an independently evaluated predicate and relations between returned values validated by spec/dp/BisectTrace.tla",
    category="model_checking", design_ref="4 C07",
    text="TLC checks for every threshold on a 64-point (thorough 256) grid and both search orientations that the end the implementation returns is the sound one and that the neighbouring grid point violates the predicate. Real cdp_rho / cdp_eps / cdp_delta calls on log grids and random points of the stated ranges are traced (hook H6): at every iteration the end that moves must be the one prescribed by an independent evaluation of the published Renyi-order bound (dense alpha grid + golden section), the midpoint and the untouched end are checked, and the returned value must be the sound end. Returned values must satisfy, as TLC comparisons of fixed-point logarithms: implied delta <= target, exact Gaussian-mechanism delta <= implied delta, tightness (a 1e-6 larger budget / smaller epsilon violates the target), cdp_delta = optimum of the bound, monotonicity in each argument, and the two inverse relations where the constraint is active.",
    note="Level for the analytic clauses is 'other': exp/log1p/erfc are evaluated by the harness, TLC decides the comparisons and branch consistency. Bound minimised over alpha >= 1.01 (the implementation's documented stability floor)."),
 "C19": dict(
    technique="TLA+ spec of the accept/reject/step-size loop of public-data reweighting (spec/approx/PublicMD.tla; ReturnsLastAccepted, NoDoublingAfterReject) model-checked by TLC over every outcome sequence; hook-H5 traces validated by spec/approx/PublicTrace.tla; validity and fit of the returned weights checked against an independent numpy oracle",
    category="model_checking", design_ref="4 C19",
    text="TLC explores every accept/reject sequence of length 10 (thorough 12) of the line-search machine and checks that the weights returned are the last accepted point, that the step never doubles after a rejection and that the iterate moves only on accepted steps. PublicInference.estimate is run on a fresh object for seeded public datasets (support missing private cells and vice versa), measurement sets (identity/total/prefix queries, projections in any order incl. reordered full-domain), noise scales and totals given / estimated / estimated-below-zero / unrelated; the result must hold one finite non-negative weight per public record summing to the total over the unchanged records, and its squared-error fit recomputed with plain numpy must not exceed that of uniform weights with the same total; each run's H5 stream must be a behaviour of the spec with branch = independently re-evaluated comparison and exact step-size exponents.",
    note="Fresh object per scenario (repeated calls on one object are outside the property)."),
 "C18": dict(
    technique="TLA+ spec of the restart/damping controller of approximate estimation (spec/approx/LocalMD.tla: NoCrash, RestoredOnRestart, restart hazard) model-checked by TLC over every loss-trajectory pattern; hook-H4 traces validated by spec/approx/LocalTrace.tla; validity, feasibility and exactness checked on real runs",
    category="model_checking", design_ref="4 C18",
    text="TLC explores the controller for the three oracles x iteration counts {1,2,51,52,60} x every loss-up/down pattern, checking that every field an action reads exists for that oracle (NoCrash), that restarts restore potentials and messages, and exhibits the unbounded restart chain as a design hazard. LocalInference.estimate is run for convex/approx/pairwise on overlapping, cyclic, nested three-level (large totals) and disjoint measurement sets with 1,5,60,200 iterations and totals given/estimated: no exception; every measured clique's table finite, non-negative, summing to the total; fit no worse than uniform; convex-oracle tables agreeing within the enforced feasibility tolerance (edge-averaged L1 < 1, recomputed with numpy); on disjoint families (half of them after an earlier call with other answers on the same object) the loss must equal FactoredInference's within 1e-3 of the initial gap. Each run's H4 stream must be a behaviour of the controller spec.",
    note="pairwise-convex needs cvxopt (absent). Known finding F17 (unchecked final step, iters=1) listed."),
 "C16": dict(
    technique="TLA+ specs of region-graph construction (spec/approx/RegionGraph.tla), of the undamped GBP fixed point on two-level RIP structures (GBP.tla) and of flooding BP on tree factor graphs (FactorGraphBP.tla) model-checked by TLC; structures, first exact sweep D* and exact integer marginals replayed on RegionGraph / FactorGraph",
    category="model_checking", design_ref="4 C16",
    text="TLC checks, for every antichain of cliques over 3 attributes and over 4 attributes with <= 3 (thorough 4) cliques x every legal choice of pruned parents, that the Moebius counting numbers count every attribute once, that N and D message sets are disjoint and refer to existing messages and that denominators are sent earlier in the size-ordered schedule; the real RegionGraph must reproduce regions, parent classes, counting numbers, N/D/B and a valid order. GBP.tla shows the undamped update exact on two-level running-intersection structures; FactorGraphBP.tla computes for each of 60 (thorough 400) tree factor graphs the first sweep D* from which beliefs are exact. RegionGraph(convex=False, 200 sweeps) on all RIP clique sets (plus 3-level 5-attribute ones) and FactorGraph at D*, D*+5 and 25 sweeps (per sweep through the callback) are compared with brute-force marginals at 1e-8; arbitrary clique sets x 1,2,25 sweeps x both oracle families x repeated (warm) calls x reassigned totals must give finite, non-negative tables summing to the total.",
    note="pairwise-convex needs cvxopt (absent). Multi-level RIP structures are compared numerically only. Known finding F11 listed."),
 "C17": dict(
    technique="TLA+ spec of the local polytope and its feasible directions (spec/approx/ConvexRG.tla; TLC verifies every certificate direction in exact integers) and trace validation (spec/approx/ConvexTrace.tla) of a primal first-order optimality certificate evaluated on the pseudo-marginals returned by real runs",
    category="model_checking", design_ref="4 C17",
    text="For 12 region structures (trees, single loop, dense pairs, nested, two- and three-level triples, loops of triples, cliques spelled in unsorted order with equal-size multi-attribute separators) an exact integer basis of the tangent space of the local polytope is computed by Fraction elimination; TLC checks in integer arithmetic that every basis direction has zero sum per region and that every parent direction marginalises to its child's (so an optimum can never be rejected for a bad direction), and that the basis spans the kernel. RegionGraph(convex=True, 5000 sweeps, convergence 1e-10) is run for dampings 0.1/0.5/0.9 x totals x potentials on the input cliques or on every region; the strictly concave objective makes mu the unique optimum iff it is feasible and theta - ln mu is orthogonal to every feasible direction, which ConvexTrace.tla checks at 1e-6 on the logged numbers (region normalisation, parent-child L1 agreement, stationarity per direction).",
    note="'Run to convergence' = 5000 sweeps; dot products formed in floats by the harness (TLC verifies the directions and the thresholds); unit counting numbers only; star-family closed form not implemented."),
}

NOT_YET = "check not built yet"

def main():
    checks = []
    for pid in ALL:
        if pid not in CHECKS:
            continue
        c = CHECKS[pid]
        checks.append({
            "property_id": pid,
            "quick_cmd": "./bin/check %s --tier quick" % pid,
            "thorough_cmd": "./bin/check %s --tier thorough" % pid,
            "evidence_file": "/verif/evidence/%s.json" % pid,
            "replay_cmd_template": "./bin/check %s --replay {path}" % pid,
            "engine": "tlc+replay",
            "level_claimed": {"category": c["category"], "text": c["text"], "design_ref": c["design_ref"]},
            "level_note": c["note"],
            "technique": c["technique"],
        })
    hooks_commits = []
    hp = os.path.join(V, "hooks_commits.txt")
    if os.path.exists(hp):
        hooks_commits = [l.split()[0] for l in open(hp) if l.strip()]
    m = {
        "version": 1,
        "setup_cmd": "./bin/setup",
        "hooks": {"guard": "PRIVATE_PGM_VERIF", "enable": "PRIVATE_PGM_VERIF=1 in the environment before importing mbi/mechanisms (bin/check sets it); pure Python, nothing to build",
                  "baseline_off_cmd": "cd /repo && env -u PRIVATE_PGM_VERIF /venv/bin/python -m pytest -ra -q -p no:cacheprovider --timeout=900 --continue-on-collection-errors",
                  "source_commits": hooks_commits, "add_only": True},
        "engines": [{"name": "tlc+replay", "path": "/verif/bin/check", "serves_properties": sorted(CHECKS),
                     "kind_free_text": "TLA+ specs under spec/ checked with TLC; spec behaviours replayed into the Python implementation and implementation traces validated against trace specs (harness/)"}],
        "checks": checks,
        "notes": "See DESIGN.md. Exit 0 = held (KNOWN-FINDING lines allowed), 1 = VIOLATION, 2 = machinery failure.",
        "not_applicable": [{"property_id": p, "reason": NA.get(p, NOT_YET)} for p in ALL if p not in CHECKS],
    }
    json.dump(m, open(os.path.join(V, "MANIFEST.json"), "w"), indent=1)
    print("MANIFEST: %d checks, %d not_applicable" % (len(checks), len(m["not_applicable"])))

NA = {}
if __name__ == "__main__":
    main()
