#!/bin/bash
# tools/seedsweep.sh "<ids>" "<seeds>" [tier] : run checks under several VERIF_SEED values; report any non-zero exit.
# NOTE: runs against /repo itself and rewrites evidence files in the cwd tree (use from a vp run snapshot).
cd "$(dirname "$0")/.."
for id in $1; do for s in $2; do
  out=$(VERIF_SEED=$s ./bin/check $id --tier ${3:-quick} 2>&1); rc=$?
  echo "$id seed=$s rc=$rc $(echo "$out" | tail -1)"
  if [ $rc -ne 0 ]; then echo "$out" | grep -v -e WARNING -e Warning -e warnings.warn | grep -v '^VIOLATION' | cut -c1-400 | head -6; fi
done; done
