#!/usr/bin/env python3
"""Print the prompt given to an independent sub-agent that seeds a property-breaking change."""
import json, sys
pid = sys.argv[1]
for l in open('/verif/properties.jsonl'):
    p = json.loads(l)
    if p['id'] == pid:
        break
wt = "/tmp/seed/%s" % pid
out = "/tmp/seedout/%s" % pid
print(f"""You are helping test a verification effort for the open-source Python library private-pgm (ryan112358/private-pgm: graphical-model inference from noisy marginals plus differential-privacy mechanisms). You have your own scratch git worktree of the repository at {wt} (work ONLY there; never touch /repo or /verif, and do not read anything under /verif).

Here is a semantic property the library is supposed to satisfy:

  Title: {p['title']}
  Statement: {p['statement']}
  Quantified over: {p['quantifier']['text']}
  Main files: {', '.join(p['anchors']['files'])}

Your task: produce TWO independent, realistic code changes ("a" and "b") to the library in {wt}, each of which BREAKS this property while the code still imports, and the repository's existing test suite still passes exactly as before. Make them the kind of plausible bug a maintainer could introduce in a refactor or optimisation, NOT ones that ordinary use would expose at once: each should need something specific to manifest (an unusual input such as a particular clique structure / attribute order / size-1 attribute / -inf potential / particular parameter value, a multi-step sequence of calls, a particular schedule/order, or two cooperating sites that each look fine alone). The two changes should be in different places / of different kinds. Keep each change small (a few lines). Do not touch the tests. Do not add or remove lines mentioning PRIVATE_PGM_VERIF or _verif_trace if you see any.

Environment facts:
- Run Python as: cd {wt} && PYTHONPATH={wt}/src:{wt} /venv/bin/python ...   (check `import mbi; print(mbi.__file__)` points into {wt}; an editable install of /repo exists, PYTHONPATH must override it)
- Existing test suite: cd {wt} && PYTHONPATH={wt}/src:{wt} /venv/bin/python -m pytest -q -p no:cacheprovider --timeout=900 --continue-on-collection-errors    Baseline result on the unchanged tree: 32 passed, 12 skipped (torch tests). With your change the same 32 tests must pass.
- No network. Not installed: torch, jax, cvxopt, autodp, hdmm. mechanisms/mechanism.py imports autodp and mechanisms/aim.py imports hdmm, so to import those modules in a demo you must stub them in sys.modules first (e.g. a module autodp.privacy_calibrator with a function ana_gaussian_mech(eps, delta) returning {{'sigma': ...}}, and hdmm.matrix.Identity).
- mechanisms/adaptive_grid.py assigns to `Q.T` of a scipy csr_matrix (lines ~299, 338), which this scipy forbids; a demo that runs that mechanism must work around it (e.g. patch scipy.sparse.csr_matrix.T with a settable property) - this is an environment incompatibility, not something to exploit.
- The tree contains a few tracing hooks guarded by the environment variable PRIVATE_PGM_VERIF (module src/mbi/_verif_trace.py and `if _vt.ON ...` lines); leave those lines alone and do not rely on them.
- Never use `git stash` (it is shared between worktrees); use `git diff > file`, `git checkout -- .` and `git apply`.

For each change X in {{a, b}} write into {out}/X/ :
  - patch.diff   : `git diff` of the change relative to HEAD (apply-able with `git apply` at the repo root)
  - demo.py      : a small standalone program, run as `PYTHONPATH=<tree>/src:<tree> /venv/bin/python demo.py`, that exits 0 (prints PASS) on the unchanged tree and exits non-zero (prints FAIL and why) with the change applied; it must test the PROPERTY as stated above (not an implementation detail), deterministically.
  - notes.md     : 5-10 lines: what was changed, why it breaks the property, and exactly what it needs in order to manifest (which inputs/sequence), and which inputs do NOT expose it.
Verify yourself: (1) demo passes on a clean tree, (2) fails with the patch, (3) the 32 baseline tests still pass with the patch. After saving each patch, revert the worktree (git checkout -- .) so the two patches are independent. Finish by replying with a 3-line summary per change.""")
