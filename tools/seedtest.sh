#!/bin/bash
# tools/seedtest.sh <patchdir> <Cxx> [tier] : apply a seeded patch to /repo, run a check, revert.
set -u
P="$1/patch.diff"
cd /repo && git diff --quiet || { echo "repo dirty"; exit 3; }
git apply "$P" 2>/dev/null || patch -p1 -F3 -s < "$P" || { echo "PATCH DOES NOT APPLY"; git reset -q --hard HEAD; find . -name '*.rej' -o -name '*.orig' | xargs rm -f; exit 3; }
git -C /repo diff --stat | tail -1
cd /verif && ./bin/check "$2" --tier "${3:-quick}" 2>&1 | grep -v -e WARNING -e UserWarning -e warnings.warn | tail -${TAILN:-4}
echo "exit=${PIPESTATUS[0]}"
cd /repo && git checkout -- . && git clean -fdq src mechanisms test 2>/dev/null; git status --short | grep -v egg-info
