#!/bin/bash
# tools/seedtest.sh <patchdir> <Cxx> [tier] : run a check against a SCRATCH worktree of /repo with a seeded patch applied.
# /repo itself is never touched; evidence and replay files of the run go to a scratch directory.
set -u
P="$(cd "$1" && pwd)/patch.diff"
WT=$(mktemp -d /tmp/seedwt-XXXXXX); rmdir $WT
git -C /repo worktree add -q --detach $WT HEAD || exit 3
cleanup() { git -C /repo worktree remove --force $WT 2>/dev/null; rm -rf $WT.out; }
trap cleanup EXIT
(cd $WT && (git apply "$P" 2>/dev/null || patch -p1 -F3 -s < "$P")) || { echo "PATCH DOES NOT APPLY"; exit 3; }
git -C $WT diff --stat | tail -1
mkdir -p $WT.out
cd /verif && VERIF_REPO=$WT VERIF_EVIDENCE_DIR=$WT.out/evidence VERIF_REPLAY_DIR=$WT.out/replay ./bin/check "$2" --tier "${3:-quick}" 2>&1 | grep -v -e WARNING -e UserWarning -e warnings.warn | sed "s#$WT.out#<scratch>#g" | tail -${TAILN:-4}
echo "exit=${PIPESTATUS[0]}"
