#!/usr/bin/env python3
"""Apply each text mutant of tools/mutants.txt in a scratch worktree of /repo and run the property's quick check on it.
Never touches /repo. Output: one line per mutant (detected / missed / not applicable / tests fail)."""
import os, subprocess, sys, tempfile, shutil
V = os.path.dirname(os.path.dirname(os.path.abspath(__file__)))
only = set(sys.argv[1:])
for line in open(os.path.join(V, "tools", "mutants.txt")):
    line = line.rstrip("\n")
    if not line or line.startswith("#"):
        continue
    prop, path, repl, desc = line.split("|", 3)
    if only and prop not in only:
        continue
    old, new = repl.split(" ==> ")
    old, new = old.replace("\\n", "\n"), new.replace("\\n", "\n")
    wt = tempfile.mkdtemp(prefix="mutwt-", dir="/tmp"); os.rmdir(wt)
    subprocess.run(["git", "-C", "/repo", "worktree", "add", "-q", "--detach", wt, "HEAD"], check=True)
    try:
        f = os.path.join(wt, path)
        s = open(f).read()
        if old not in s:
            print("%s NOT-APPLICABLE %s" % (prop, desc)); continue
        open(f, "w").write(s.replace(old, new, 1))
        env = dict(os.environ, PYTHONPATH="%s/src:%s" % (wt, wt)); env.pop("PRIVATE_PGM_VERIF", None)
        t = subprocess.run(["/venv/bin/python", "-m", "pytest", "-q", "-p", "no:cacheprovider", "--timeout=900", "--continue-on-collection-errors"], cwd=wt, env=env, capture_output=True, text=True).stdout.strip().splitlines()[-1]
        tests_ok = "32 passed" in t
        env2 = dict(os.environ, VERIF_REPO=wt, VERIF_EVIDENCE_DIR=wt + ".out/evidence", VERIF_REPLAY_DIR=wt + ".out/replay")
        r = subprocess.run([os.path.join(V, "bin", "check"), prop], cwd=V, env=env2, capture_output=True, text=True)
        out = [l for l in (r.stdout + r.stderr).splitlines() if l.strip() and "WARNING" not in l and "Warning" not in l and "warnings.warn" not in l]
        first = next((l.strip() for l in out if not l.startswith(("VIOLATION", "KNOWN", "MODEL-DEV")) and "quick:" not in l), "")
        verdict = {0: "MISSED", 1: "DETECTED", 2: "MACHINERY"}.get(r.returncode, "rc%d" % r.returncode)
        print("%s %s%s | %s | %s" % (prop, verdict, "" if tests_ok else " (suite also fails: %s)" % t[:40], desc, first[:150]), flush=True)
    finally:
        subprocess.run(["git", "-C", "/repo", "worktree", "remove", "--force", wt]); shutil.rmtree(wt + ".out", ignore_errors=True)
