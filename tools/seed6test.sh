#!/bin/bash
# run every available round-6 seed against its property's check (scratch worktrees)
for d in /tmp/seedout6/C*/[ab]; do
  [ -f $d/patch.diff ] && [ -f $d/notes.md ] || continue
  id=$(basename $(dirname $d)); x=$(basename $d)
  [ -f /tmp/seedout6/$id/$x/result.txt ] && continue
  out=$(TAILN=3 /verif/tools/seedtest.sh $d $id 2>&1 | cut -c1-260)
  echo "$out" > /tmp/seedout6/$id/$x/result.txt
  echo "== $id/$x: $(echo "$out" | grep -E '^exit=') | $(echo "$out" | grep -v -E '^exit=|file changed|^VIOLATION|quick:' | head -1)"
done
