#!/bin/bash
# tools/mut.sh <Cxx> <file-relative-to-repo> <sed-expr> [tier]  : apply a mutation to /repo, run a check, revert.
set -u
cd /repo && git diff --quiet || { echo "repo dirty"; exit 3; }
sed -i "$3" "/repo/$2"
git -C /repo diff --stat | tail -1
cd /verif && ./bin/check "$1" --tier "${4:-quick}" 2>&1 | grep -v -e WARNING -e UserWarning -e warnings.warn | tail -${TAILN:-6}
echo "exit=${PIPESTATUS[0]}"
git -C /repo checkout -- .
