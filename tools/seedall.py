#!/usr/bin/env python3
"""Run every kept seed (seeded/<name>/patch.diff) against the check of the property it breaks (and optionally others);
record the outcome in seeded/<name>/meta.json (detected_by)."""
import glob, json, os, subprocess, sys
V = os.path.dirname(os.path.dirname(os.path.abspath(__file__)))
names = sys.argv[1:] or sorted(os.path.basename(d) for d in glob.glob(os.path.join(V, "seeded", "C*")))
for name in names:
    d = os.path.join(V, "seeded", name)
    meta = json.load(open(os.path.join(d, "meta.json")))
    prop = meta["breaks_property"]
    out = subprocess.run([os.path.join(V, "tools", "seedtest.sh"), d, prop], capture_output=True, text=True, env=dict(os.environ, TAILN="6")).stdout
    lines = [l for l in out.splitlines() if l.strip()]
    rc = next((l for l in lines if l.startswith("exit=")), "exit=?")
    first = next((l.strip() for l in lines if not l.startswith(("VIOLATION", "exit=", "KNOWN", " 1 file", " 2 files")) and "quick:" not in l), "")
    det = {"check": prop, "tier": "quick", "exit": rc, "first_violation": first[:400]}
    meta["detected_by"] = [det]
    json.dump(meta, open(os.path.join(d, "meta.json"), "w"), indent=1)
    print(name, rc, first[:140])
