#!/bin/bash
# tools/thorough_all.sh "<ids>" : run the thorough tier of the given checks one after another, reporting exit code and wall time.
cd "$(dirname "$0")/.."
for id in $1; do
  t0=$(date +%s); out=$(timeout ${2:-5400} ./bin/check $id --tier thorough 2>&1); rc=$?
  echo "$id thorough rc=$rc $(( $(date +%s) - t0 ))s $(echo "$out" | tail -1)"
  if [ $rc -ne 0 ]; then echo "$out" | grep -v -e WARNING -e Warning -e warnings.warn | grep -v '^VIOLATION' | cut -c1-400 | tail -8; fi
done
