------------------------------ MODULE MC_Dom ------------------------------
EXTENDS DomainAlgebra
MCSz == [a \in Univ |-> IF a = "a" THEN 2 ELSE IF a = "b" THEN 3 ELSE IF a = "c" THEN 1 ELSE 2]
=============================================================================
