--------------------------- MODULE DomainAlgebra ---------------------------
(* Domain operations (src/mbi/domain.py): a domain is a sequence of         *)
(* distinct attribute names with sizes Sz.  TLC checks the set and product  *)
(* laws named by C15 on every pair of domains and every argument, and       *)
(* prints the expected result of every operation for replay on Domain.      *)
EXTENDS Tables, TLC, Json

CONSTANTS Univ, Sz,
          ArgMax     \* bound on the length of the second domain and of the argument sequence
VARIABLES d1, d2, arg, done
vars == <<d1, d2, arg, done>>

RECURSIVE Perms(_)
Perms(A) == IF A = {} THEN {<<>>} ELSE UNION {{<<a>> \o p : p \in Perms(A \ {a})} : a \in A}
Layouts == UNION {Perms(A) : A \in SUBSET Univ}
OrdSubs(s) == UNION {Perms(A) : A \in SUBSET SeqRange(s)}

RECURSIVE SizeSeq(_)
SizeSeq(s) == IF s = <<>> THEN 1 ELSE Sz[Head(s)] * SizeSeq(Tail(s))
Without(s, A) == SelectSeq(s, LAMBDA a : a \notin A)

Project(d, s) == s                                           \* l.20-30: order as requested
Marginalize(d, A) == Without(d, A)                           \* l.32-39
Invert(d, A) == Without(d, A)                                \* l.53-55
Merge(d, e) == d \o Without(e, SeqRange(d))                  \* l.57-70
Canonical(d, A) == SelectSeq(d, LAMBDA a : a \in A)          \* l.92-94
DContains(d, e) == SeqRange(e) \subseteq SeqRange(d)          \* l.72-76
Axes(d, s) == [i \in DOMAIN s |-> (CHOOSE k \in DOMAIN d : d[k] = s[i]) - 1]   \* l.41-47
\* stable sort by size (l.84-90): a permutation, sizes non-decreasing, ties in original order
IsSortBySize(d, r) == /\ Len(r) = Len(d) /\ SeqRange(r) = SeqRange(d)
                      /\ \A i, j \in DOMAIN r : i < j =>
                           \/ Sz[r[i]] < Sz[r[j]]
                           \/ (Sz[r[i]] = Sz[r[j]] /\ (CHOOSE k \in DOMAIN d : d[k] = r[i]) < (CHOOSE k \in DOMAIN d : d[k] = r[j]))
SortBySize(d) == CHOOSE r \in Perms(SeqRange(d)) : IsSortBySize(d, r)

Init == /\ d1 \in Layouts
        /\ d2 \in {l \in Layouts : Len(l) <= ArgMax}
        /\ arg \in {l \in OrdSubs(d1) : Len(l) <= ArgMax}
        /\ done = FALSE

Rec == [d1 |-> d1, d2 |-> d2, arg |-> arg,
        project |-> Project(d1, arg), marginalize |-> Marginalize(d1, SeqRange(arg)),
        invert |-> Invert(d1, SeqRange(arg)), merge |-> Merge(d1, d2),
        canonical |-> Canonical(d1, SeqRange(arg)), canonical_any |-> Canonical(d1, SeqRange(d2)),
        invert_any |-> Invert(d1, SeqRange(d2)), marginalize_any |-> Marginalize(d1, SeqRange(d2)),
        contains |-> DContains(d1, d2), axes |-> Axes(d1, arg),
        size |-> SizeSeq(d1), size_arg |-> SizeSeq(arg), sort_size |-> SortBySize(d1),
        eq |-> (d1 = d2)]

Emit == /\ ~done /\ done' = TRUE /\ PrintT(<<"EMIT", ToJson(Rec)>>) /\ UNCHANGED <<d1, d2, arg>>
Next == Emit
Spec == Init /\ [][Next]_vars

-----------------------------------------------------------------------------
A == SeqRange(arg)
MergeSizeLaw == SizeSeq(Merge(d1, d2)) * SizeSeq(Canonical(d1, SeqRange(d2))) = SizeSeq(d1) * SizeSeq(d2)
MergeSetLaw == /\ SeqRange(Merge(d1, d2)) = SeqRange(d1) \cup SeqRange(d2)
               /\ Merge(d1, d1) = d1
               /\ Cardinality(SeqRange(Merge(d1, d2))) = Len(Merge(d1, d2))
ComplementLaw == /\ SeqRange(Marginalize(d1, A)) = SeqRange(d1) \ A
                 /\ Marginalize(d1, A) = Invert(d1, A)
                 /\ SizeSeq(Marginalize(d1, A)) * SizeSeq(arg) = SizeSeq(d1)
CanonicalLaw == /\ SeqRange(Canonical(d1, A)) = A
                /\ Canonical(d1, A) = Without(d1, SeqRange(d1) \ A)        \* a subsequence of d1
                /\ SizeSeq(Canonical(d1, A)) = SizeSeq(arg)               \* size is order-independent
\* a list that also names attributes OUTSIDE the domain splits the domain all the same: what it names, and the rest
ForeignLaw == LET B == SeqRange(d2) IN
              /\ SeqRange(Invert(d1, B)) \cup SeqRange(Canonical(d1, B)) = SeqRange(d1)
              /\ SeqRange(Invert(d1, B)) \cap SeqRange(Canonical(d1, B)) = {}
              /\ SizeSeq(Invert(d1, B)) * SizeSeq(Canonical(d1, B)) = SizeSeq(d1)
              /\ Marginalize(d1, B) = Invert(d1, B)
EmptyLaw == SizeSeq(<<>>) = 1
SortLaw == IsSortBySize(d1, SortBySize(d1))
AxesLaw == \A i \in DOMAIN arg : d1[Axes(d1, arg)[i] + 1] = arg[i]
=============================================================================
