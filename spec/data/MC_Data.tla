------------------------------ MODULE MC_Data ------------------------------
EXTENDS Contingency
MCSz == [a \in {"a", "b", "c", "d"} |-> IF a = "a" THEN 2 ELSE IF a = "b" THEN 3 ELSE IF a = "c" THEN 1 ELSE 2]
MCW == {<<2, 3, 5>>}
MCDom == <<"b", "a", "c">>
=============================================================================
