---------------------------- MODULE Contingency ----------------------------
(* Datasets as weighted record bags (src/mbi/dataset.py): the vector form   *)
(* is the contingency table in domain order; projection onto any attribute  *)
(* sequence commutes with marginalising + transposing that table and        *)
(* carries the weights along.                                               *)
EXTENDS Tables, TLC, Json

CONSTANTS Dom,        \* the dataset's domain: a sequence of attribute names
          Sz,
          MaxRecs,    \* record bags up to this size
          Weights     \* candidate integer weights per record ({} = unweighted only)
VARIABLES recs, wts, proj, done
vars == <<recs, wts, proj, done>>

RECURSIVE Perms(_)
Perms(A) == IF A = {} THEN {<<>>} ELSE UNION {{<<a>> \o p : p \in Perms(A \ {a})} : a \in A}
OrdSubs(s) == UNION {Perms(A) : A \in SUBSET SeqRange(s)}
AllAsg == Asg(SeqRange(Dom), Sz)

\* vector of a weighted bag over the attribute sequence s: cell x counts the weight of the records equal to x on s
RECURSIVE WSum(_, _, _, _)
WSum(rs, ws, s, x) == IF rs = <<>> THEN 0
                      ELSE (IF Restr(Head(rs), SeqRange(s)) = x THEN Head(ws) ELSE 0) + WSum(Tail(rs), Tail(ws), s, x)
Vector(rs, ws, s) == LET as == AsgSeq(s, Sz) IN [i \in DOMAIN as |-> WSum(rs, ws, s, as[i])]
VectorTbl(rs, ws, s) == [at |-> SeqRange(s), v |-> [x \in Asg(SeqRange(s), Sz) |-> WSum(rs, ws, s, x)]]

Init == /\ recs \in UNION {[1..n -> AllAsg] : n \in 0..MaxRecs}
        /\ wts \in {<<>>} \cup Weights
        /\ proj \in OrdSubs(Dom)
        /\ done = FALSE

W == IF wts = <<>> THEN [i \in DOMAIN recs |-> 1] ELSE [i \in DOMAIN recs |-> wts[((i - 1) % Len(wts)) + 1]]

Rec == [recs |-> [i \in DOMAIN recs |-> [k \in DOMAIN Dom |-> recs[i][Dom[k]]]],
        weighted |-> (wts # <<>>), w |-> W, proj |-> proj,
        full |-> Vector(recs, W, Dom), projected |-> Vector(recs, W, proj)]
Emit == ~done /\ done' = TRUE /\ PrintT(<<"EMIT", ToJson(Rec)>>) /\ UNCHANGED <<recs, wts, proj>>
Next == Emit
Spec == Init /\ [][Next]_vars

\* C15: projection commutes with marginalising and transposing the contingency table
Commutes == Vector(recs, W, proj) = Flat(Marg(VectorTbl(recs, W, Dom), SeqRange(proj), Sz), proj, Sz)
\* total weight is preserved by every projection
MassPreserved == LET v == Vector(recs, W, proj) IN
                 FoldFunctionOnSet(LAMBDA x, y : x + y, 0, v, DOMAIN v) = FoldFunctionOnSet(LAMBDA x, y : x + y, 0, W, DOMAIN W)
=============================================================================
