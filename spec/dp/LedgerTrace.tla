---------------------------- MODULE LedgerTrace ----------------------------
(* Validates the privacy ledger of real mechanism runs against Ledger.tla.  *)
(* The harness runs a mechanism on D (recording every released value and    *)
(* selection) and on a neighbour D' (made to observe the same values), and  *)
(* logs for every primitive                                                 *)
(*    k       "R" (noisy release) or "S" (private selection)                *)
(*    design  micro-units implied by the logged noise scale (releases)      *)
(*    actual  micro-units actually incurred between D and D'                *)
(* The trace must follow the mechanism's published design (sequence and     *)
(* per-position charge), each actual cost must be covered by its design     *)
(* charge, and the design charges must stay within the budget.              *)
EXTENDS Ledger, TraceLib

CONSTANT Strict    \* TRUE: the run follows the mechanism's published budget arithmetic position by position;
                   \* FALSE: only C05 itself - the ACTUAL costs of all primitives add up to at most the budget
VARIABLES tid, l, spent
tvars == <<vars, tid, l, spent>>
Tr == Traces[tid]
Ev == Tr.events[l]
Tol(c) == 4 + c \div 50000
Near(x, c) == x - c <= Tol(c) /\ c - x <= Tol(c)
IsEv == l <= Len(Tr.events) /\ l' = l + 1 /\ UNCHANGED tid

TraceInit == /\ tid \in 1..NTraces /\ l = 1 /\ spent = 0
             /\ d = Traces[tid].d /\ T = Traces[tid].T /\ used = 0 /\ level = 0
             /\ phase = (IF Traces[tid].mech = "AIM" THEN "oneway" ELSE "static") /\ oneway = 0 /\ term = FALSE /\ rounds = 0

Expected(i) == CASE Tr.mech = "MST" -> MSTAt(Tr.d, i)
                 [] Tr.mech = "MWEM" -> MWEMAt(Tr.T, Tr.a10, i)
                 [] Tr.mech = "AdaGrid" -> AdaAt(Tr.n1, Tr.r, Tr.n3, Tr.f, Tr.fsum, i)
ExpectedLen == CASE Tr.mech = "MST" -> MSTLen(Tr.d)
                 [] Tr.mech = "MWEM" -> MWEMLen(Tr.T)
                 [] Tr.mech = "AdaGrid" -> AdaLen(Tr.n1, Tr.r, Tr.n3)

\* mechanisms with a fixed schedule
Static == /\ Strict /\ phase = "static" /\ IsEv /\ Ev.k # "Done"
          /\ l <= ExpectedLen
          /\ LET X == Expected(l) IN
               /\ Ev.k = X.k                                  \* the published sequence of primitives
               /\ Ev.k = "R" => Near(Ev.design, X.c)          \* the noise scale is the published one
               /\ Ev.actual <= X.c + Tol(X.c)                 \* the actual change is covered by the charge
               /\ spent' = spent + X.c
               /\ spent' <= U + 4 * l                         \* within budget
          /\ UNCHANGED vars
StaticDone == /\ Strict /\ phase = "static" /\ IsEv /\ Ev.k = "Done" /\ l = ExpectedLen + 1 /\ UNCHANGED <<vars, spent>>

\* AIM
AIMOneWay == /\ Strict /\ IsEv /\ Ev.k = "R" /\ OneWay
             /\ Near(Ev.design, OneWayCost(T)) /\ Ev.actual <= OneWayCost(T) + Tol(OneWayCost(T))
             /\ WithinBudget' /\ spent' = used'
\* a round is a selection followed by a release; the selection is consumed first with the round's cost fixed
AIMSelect == /\ Strict /\ phase = "rounds" /\ ~term /\ IsEv /\ Ev.k = "S"
             /\ LET last == U - used < 2 * RoundCost(T, level)
                    cost == IF last THEN U - used ELSE RoundCost(T, level)
                IN  /\ cost >= 0
                    /\ Ev.actual <= cost \div 10 + Tol(cost)
                    /\ spent' = spent + cost \div 10
             /\ phase' = "release" /\ UNCHANGED <<d, T, used, level, oneway, term, rounds>>
AIMReleaseStep(a) ==
  /\ Strict /\ phase = "release" /\ IsEv /\ Ev.k = "R"
  /\ LET last == U - used < 2 * RoundCost(T, level)
         cost == IF last THEN U - used ELSE RoundCost(T, level)
         rc == (9 * cost) \div 10
     IN  /\ Near(Ev.design, rc) /\ Ev.actual <= rc + Tol(rc)
         /\ used' = used + cost /\ term' = last
         /\ spent' = used'
         /\ level' = IF a /\ ~last THEN level + 1 ELSE level
  /\ rounds' = rounds + 1 /\ phase' = "rounds"
  /\ UNCHANGED <<d, T, oneway>>
  /\ WithinBudget'
AIMDone == /\ Strict /\ phase = "rounds" /\ term /\ IsEv /\ Ev.k = "Done" /\ UNCHANGED <<vars, spent>>

LAny == /\ ~Strict /\ IsEv
        /\ spent' = spent + Ev.actual
        /\ spent' <= U + 4 * l               \* charged by the actual change, never above the budget
        /\ UNCHANGED vars
TraceNext == LAny \/ Static \/ StaticDone \/ AIMOneWay \/ AIMSelect \/ (\E a \in BOOLEAN : AIMReleaseStep(a)) \/ AIMDone
TraceSpec == TraceInit /\ [][TraceNext]_tvars
Marker == Mark(tid, l)
ASSUME InitMarks
Post == PrintVerdicts
=============================================================================
