----------------------------- MODULE LedgerInd -----------------------------
(* Inductive-invariant version of the AIM budget machine of Ledger.tla for  *)
(* Apalache, with UNBOUNDED numbers of attributes d, rounds T and annealing *)
(* steps.  Exact integer units: one unit = rho / (10 T), so the budget is   *)
(* B = 10 T, a one-way release costs 9, a round at annealing level k costs  *)
(* 10 * 4^k (rc), the last round spends the remainder (aim.py:64-125).      *)
(* Theorem checked: if 10 T >= 9 d (rounds >= 0.9 d) the charges never      *)
(* exceed the budget, on every annealing history, for all d, T.             *)
EXTENDS Integers
CONSTANTS
  \* @type: Int;
  d,
  \* @type: Int;
  T
VARIABLES
  \* @type: Int;
  used,
  \* @type: Int;
  rc,
  \* @type: Int;
  oneway,
  \* @type: Str;
  phase,
  \* @type: Bool;
  term

B == 10 * T
CInit == d' \in Nat /\ T' \in Nat /\ d' >= 1 /\ T' >= 1 /\ 10 * T' >= 9 * d'
Init == used = 0 /\ rc = 10 /\ oneway = 0 /\ phase = "oneway" /\ term = FALSE
OneWay == /\ phase = "oneway" /\ oneway < d
          /\ used' = used + 9 /\ oneway' = oneway + 1
          /\ phase' = (IF oneway + 1 = d THEN "rounds" ELSE "oneway")
          /\ UNCHANGED <<rc, term>>
Round == /\ phase = "rounds" /\ ~term
         /\ \E anneal \in BOOLEAN :
              LET last == B - used < 2 * rc
                  cost == IF last THEN B - used ELSE rc
              IN  /\ used' = used + cost /\ term' = last
                  /\ rc' = (IF anneal /\ ~last THEN 4 * rc ELSE rc)
         /\ UNCHANGED <<oneway, phase>>
Next == OneWay \/ Round
IndInv == /\ phase \in {"oneway", "rounds"}
          /\ 0 <= oneway /\ oneway <= d
          /\ rc >= 10
          /\ (phase = "oneway" => (used = 9 * oneway /\ oneway < d /\ ~term))
          /\ (phase = "rounds" => (oneway = d /\ 9 * d <= used))
          /\ used <= B
          /\ (term => used = B)
IndInit == /\ used \in Int /\ rc \in Int /\ oneway \in Int /\ phase \in {"oneway", "rounds"} /\ term \in BOOLEAN /\ IndInv
WithinBudget == used <= B
=============================================================================
