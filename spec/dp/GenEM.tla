------------------------------- MODULE GenEM -------------------------------
(* Scores of the generalised exponential mechanism                          *)
(* (mechanisms/mechanism.py:7-21, 40-55; Raskhodnikova & Smith 2016):        *)
(*     s_i = min_j ((q_i - t d_i) - (q_j - t d_j)) / (d_i + d_j)            *)
(* with per-candidate sensitivities d_i > 0.  The implementation takes the   *)
(* minimum only over the candidates its pareto_efficient() loop keeps        *)
(* (minimising cost -q_i and sensitivity d_i); that loop is modelled step by *)
(* step.  The selection itself is the exponential mechanism of Selection.tla *)
(* on these scores with sensitivity 1.                                       *)
EXTENDS Integers, Sequences, FiniteSets, TLC, Json, Rat

CONSTANTS MaxN, QMax, DMax, Ts
VARIABLES q, d, t, qn, eff, i, fin
vars == <<q, d, t, qn, eff, i, fin>>
N == Len(q)
Idx == 1..N

\* (q_a - t d_a) - (q_b - t d_b) over d_a + d_b
Ratio(qq, a, b) == R((qq[a] - t * d[a]) - (qq[b] - t * d[b]), d[a] + d[b])
RMinOf(S) == CHOOSE m \in S : \A x \in S : RLeq(m, x)
Score(qq, S, a) == RMinOf({Ratio(qq, a, b) : b \in S})

\* neighbouring inputs: candidate a's quality moves by at most its own sensitivity
Nbrs(qq) == {r \in [Idx -> (-DMax)..(QMax + DMax)] : \A a \in Idx : r[a] - qq[a] \in (-d[a])..d[a]}
Init == /\ q \in UNION {[1..n -> 0..QMax] : n \in 1..MaxN}
        /\ d \in UNION {[1..n -> 1..DMax] : n \in 1..MaxN} /\ Len(d) = Len(q)
        /\ t \in Ts
        /\ qn \in {q}        \* the neighbour is quantified inside SensitivityOne (keeps the state space small)
        /\ eff = 1..Len(q) /\ i = 1 /\ fin = FALSE
\* mechanism.py:7-12: costs = (-q, d); for each still-efficient i keep the efficient points having SOME coordinate <= i's
Step == /\ i <= N
        /\ eff' = IF i \in eff THEN {j \in eff : -q[j] <= -q[i] \/ d[j] <= d[i]} ELSE eff
        /\ i' = i + 1 /\ UNCHANGED <<q, d, t, qn, fin>>
Finish == /\ i = N + 1 /\ ~fin /\ fin' = TRUE
          /\ PrintT(<<"EMIT", ToJson([q |-> q, d |-> d, t |-> t, eff |-> eff, s |-> [a \in Idx |-> Score(q, Idx, a)]])>>)
          /\ UNCHANGED <<q, d, t, qn, eff, i>>
Next == Step \/ Finish
Spec == Init /\ [][Next]_vars

-----------------------------------------------------------------------------
Done == i = N + 1
StrictlyDominated(j) == \E a \in Idx : -q[a] < -q[j] /\ d[a] < d[j]
\* what the loop keeps is exactly the set of candidates not strictly dominated in both coordinates
KeepsUndominated == Done => eff = {j \in Idx : ~StrictlyDominated(j)}
\* restricting the minimum to the kept candidates changes no score (t >= 0)
ParetoSufficient == Done => \A a \in Idx : REq(Score(q, eff, a), Score(q, Idx, a))
\* every score is <= 0 and a candidate on the frontier that beats all others has score exactly ... at most 0
NonPositive == Done => \A a \in Idx : RLeq(Score(q, Idx, a), <<0, 1>>)
\* the scores have sensitivity one: the exponential mechanism may be run on them with sensitivity 1
SensitivityOne == (i = 1) => \A r \in Nbrs(q) : \A a \in Idx :
                     LET s1 == Score(q, Idx, a) s2 == Score(r, Idx, a)
                     IN  RLeq(RSub(s1, s2), <<1, 1>>) /\ RLeq(RSub(s2, s1), <<1, 1>>)
=============================================================================
