------------------------------- MODULE Ledger -------------------------------
(* Privacy accounting of the shipped mechanisms (mechanisms/mst.py, aim.py,  *)
(* mwem+pgm.py, adaptive_grid.py).  Budget = U micro-units (zCDP rho, or     *)
(* pure epsilon for MWEM with Laplace noise).  Every mechanism is described  *)
(* by its PUBLISHED parameter arithmetic: the charge each release/selection  *)
(* is designed to cost.  C05 holds when (a) the design charges never exceed  *)
(* the budget on any adaptive history, and (b) every primitive's ACTUAL cost *)
(* (change of the released statistic / of the selection probabilities        *)
(* between neighbouring datasets) is at most its design charge.              *)
(*   MST      d one-way releases (1/3), d-1 selections (1/3), d-1 releases   *)
(*   MWEM     T rounds of [selection (1-alpha)/T, release alpha/T]           *)
(*   AdaGrid  n1 releases (f1), r-1 selections (f2), n3 releases (f3)        *)
(*   AIM      d one-way releases at 0.9/T each, then adaptive rounds whose   *)
(*            cost quadruples with every annealing step; the last round      *)
(*            spends exactly the remainder (aim.py:64-125)                   *)
EXTENDS Integers, Sequences, TLC

U == 1000000
CONSTANTS Ds, Ts        \* AIM design exploration: numbers of attributes and of rounds

VARIABLES d, T, used, level, phase, oneway, term, rounds
vars == <<d, T, used, level, phase, oneway, term, rounds>>

Pow4(k) == IF k = 0 THEN 1 ELSE IF k = 1 THEN 4 ELSE IF k = 2 THEN 16 ELSE IF k = 3 THEN 64 ELSE IF k = 4 THEN 256 ELSE 1024
RoundCost(t, k) == (U * Pow4(k)) \div t              \* eps^2/8 + 1/(2 sigma^2) at annealing level k
OneWayCost(t) == (9 * U) \div (10 * t)               \* 0.5/sigma0^2 = 0.9 rho / T

AIMInit == /\ d \in Ds /\ T \in Ts /\ used = 0 /\ level = 0 /\ phase = "oneway" /\ oneway = 0 /\ term = FALSE /\ rounds = 0
\* aim.py:77-82
OneWay == /\ phase = "oneway" /\ oneway < d
          /\ used' = used + OneWayCost(T) /\ oneway' = oneway + 1
          /\ phase' = IF oneway + 1 = d THEN "rounds" ELSE "oneway"
          /\ UNCHANGED <<d, T, level, term, rounds>>
\* aim.py:90-118: one round; `anneal` is the data-dependent test of l.115
Round(anneal) ==
  /\ phase = "rounds" /\ ~term /\ level < 5
  /\ LET last == U - used < 2 * RoundCost(T, level)            \* l.92
         cost == IF last THEN U - used ELSE RoundCost(T, level) \* l.94-99
     IN  /\ used' = used + cost
         /\ term' = last
  /\ level' = IF anneal /\ ~term' THEN level + 1 ELSE level
  /\ rounds' = rounds + 1
  /\ UNCHANGED <<d, T, phase, oneway>>
AIMNext == OneWay \/ (\E a \in BOOLEAN : Round(a))
AIMSpec == AIMInit /\ [][AIMNext]_vars

\* C05 at design level: on every annealing history the charges stay within the budget (slack: integer division)
WithinBudget == used <= U + 4 * (d + rounds + 1)
\* ... and the terminal round always has a non-negative remainder to spend
RemainderOK == (phase = "rounds" /\ ~term) => U - used >= 0
\* the loop terminates: it cannot run with a zero per-round cost forever (level grows or budget is consumed)
Progress == (phase = "rounds" /\ ~term) => RoundCost(T, level) > 0

-----------------------------------------------------------------------------
\* static designs: expected (kind, charge) at position i (1-based) of the primitive sequence
MSTLen(n) == n + 2 * (n - 1)
MSTAt(n, i) == IF i <= n THEN [k |-> "R", c |-> U \div (3 * n)]
               ELSE IF i <= n + (n - 1) THEN [k |-> "S", c |-> U \div (3 * (n - 1))]
               ELSE [k |-> "R", c |-> U \div (3 * (n - 1))]
MWEMLen(t) == 2 * t
MWEMAt(t, a10, i) == IF i % 2 = 1 THEN [k |-> "S", c |-> ((10 - a10) * U) \div (10 * t)]
                     ELSE [k |-> "R", c |-> (a10 * U) \div (10 * t)]
\* AdaGrid: f = <<f1, f2, f3>> parts of fsum
AdaLen(n1, r, n3) == n1 + (r - 1) + n3
AdaAt(n1, r, n3, f, fsum, i) ==
  IF i <= n1 THEN [k |-> "R", c |-> (f[1] * U) \div (fsum * n1)]
  ELSE IF i <= n1 + (r - 1) THEN [k |-> "S", c |-> (f[2] * U) \div (fsum * (r - 1))]
  ELSE [k |-> "R", c |-> (f[3] * U) \div (fsum * n3)]
=============================================================================
