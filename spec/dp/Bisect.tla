------------------------------- MODULE Bisect -------------------------------
(* The three searches of mechanisms/cdp2adp.py as bisections of a MONOTONE  *)
(* predicate over a finite grid.                                            *)
(*   cdp_rho (l.73-85): P(rho) = "cdp_delta(rho, eps) <= delta" holds for   *)
(*      small rho; the search keeps P(lo) and returns lo  -> the returned   *)
(*      budget is SOUND (never too large).                                  *)
(*   cdp_eps (l.56-69): Q(eps) = "cdp_delta(rho, eps) <= delta" holds for   *)
(*      large eps; keeps Q(hi), returns hi -> the returned epsilon is SOUND.*)
(*   cdp_delta's alpha search (l.43-52): sign of the derivative.            *)
(* TLC checks, for EVERY threshold (every monotone predicate on the grid),  *)
(* that the sound end is returned and the interval halves until it closes.  *)
EXTENDS Integers, TLC

CONSTANTS N,          \* grid 0..N
          Kinds       \* subset of {"low", "high"}: which side the predicate holds on
VARIABLES kind, thr, lo, hi, steps
vars == <<kind, thr, lo, hi, steps>>

\* "low": P(x) == x <= thr (cdp_rho);  "high": P(x) == x >= thr (cdp_eps)
P(x) == IF kind = "low" THEN x <= thr ELSE x >= thr
Init == /\ kind \in Kinds /\ steps = 0
        /\ lo = 0 /\ hi = N
        /\ thr \in (IF kind = "low" THEN 0..(N - 1) ELSE 1..N)     \* initial bracket: P(lo0) /\ ~P(hi0)  (resp. ~P(lo0) /\ P(hi0))
Step == /\ hi - lo > 1
        /\ LET mid == (lo + hi) \div 2 IN
             IF kind = "low"
             THEN (IF P(mid) THEN lo' = mid /\ hi' = hi ELSE hi' = mid /\ lo' = lo)      \* l.81-84
             ELSE (IF P(mid) THEN hi' = mid /\ lo' = lo ELSE lo' = mid /\ hi' = hi)      \* l.65-68
        /\ steps' = steps + 1 /\ UNCHANGED <<kind, thr>>
Next == Step
Spec == Init /\ [][Next]_vars

Result == IF kind = "low" THEN lo ELSE hi
\* the end that is returned always satisfies the predicate; the other end never does
SoundEnd == P(Result) /\ ~P(IF kind = "low" THEN hi ELSE lo)
\* when the search stops the answer is tight: the neighbouring grid point violates the predicate
Tight == (hi - lo <= 1) => (IF kind = "low" THEN ~P(Result + 1) ELSE ~P(Result - 1))
\* logarithmic number of steps
Halving == steps <= 1 \/ (hi - lo) * 2 <= N + 2
=============================================================================
