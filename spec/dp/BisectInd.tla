----------------------------- MODULE BisectInd -----------------------------
(* Inductive-invariant version of Bisect.tla for Apalache: the grid size N  *)
(* and the threshold are UNBOUNDED (any N >= 2), so SoundEnd is established *)
(* for every grid, not only the 64/256-point grids TLC enumerates.          *)
(*   apalache-mc check --cinit=CInit --init=IndInit --inv=IndInv --length=1 *)
(*   apalache-mc check --cinit=CInit --init=Init    --inv=IndInv --length=0 *)
EXTENDS Integers
CONSTANT
  \* @type: Int;
  N
VARIABLES
  \* @type: Str;
  kind,
  \* @type: Int;
  thr,
  \* @type: Int;
  lo,
  \* @type: Int;
  hi

CInit == N' \in Nat /\ N' >= 2
P(x) == IF kind = "low" THEN x <= thr ELSE x >= thr
Init == /\ kind \in {"low", "high"}
        /\ lo = 0 /\ hi = N
        /\ thr \in 0..N
        /\ (kind = "low" => thr <= N - 1) /\ (kind = "high" => thr >= 1)
Step == /\ hi - lo > 1
        /\ LET mid == (lo + hi) \div 2 IN
             IF kind = "low"
             THEN (IF P(mid) THEN lo' = mid /\ hi' = hi ELSE hi' = mid /\ lo' = lo)
             ELSE (IF P(mid) THEN hi' = mid /\ lo' = lo ELSE lo' = mid /\ hi' = hi)
        /\ UNCHANGED <<kind, thr>>
Next == Step
\* the invariant that makes the returned end sound: the kept end satisfies the predicate, the other one does not
IndInv == /\ kind \in {"low", "high"}
          /\ 0 <= lo /\ lo < hi /\ hi <= N
          /\ (kind = "low" => (lo <= thr /\ thr < hi))
          /\ (kind = "high" => (lo < thr /\ thr <= hi))
IndInit == /\ kind \in {"low", "high"} /\ thr \in 0..N /\ lo \in 0..N /\ hi \in 0..N /\ IndInv
SoundEnd == IF kind = "low" THEN (P(lo) /\ ~P(hi)) ELSE (P(hi) /\ ~P(lo))
=============================================================================
