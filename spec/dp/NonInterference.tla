-------------------------- MODULE NonInterference --------------------------
(* C06 as a 2-safety property.  Two copies of a mechanism run on            *)
(* neighbouring datasets and are made to OBSERVE the same released values   *)
(* and the same selected indices.  Everything the mechanism computes is     *)
(* either PUBLIC state (measurement log, noise scales, candidate sets,      *)
(* supports, fitted model, control flow, output) or an OPERAND of a DP      *)
(* primitive.  Public state may be written from public state and from       *)
(* observations only; the private data may flow only into operands.         *)
(* The model abstracts every program variable to a taint in                 *)
(* {"pub", "priv"} and every statement to a transfer; TLC checks that no    *)
(* public variable, and no control decision, ever becomes "priv".           *)
(* Statement lists are transcriptions of mst.py, aim.py, mwem+pgm.py and    *)
(* adaptive_grid.py; `Deliberate` names the one declared exception.         *)
EXTENDS Integers, Sequences, FiniteSets, TLC

CONSTANTS Mechs, Bounded

\* a statement: [dst, srcs, kind] with kind in {"assign", "release", "select", "branch", "output"}
Prog(m, b) ==
  CASE m = "MST" -> <<
        [dst |-> "x",        srcs |-> {"data"},            kind |-> "assign"],     \* mst.py:38  data.project(proj).datavector()
        [dst |-> "y",        srcs |-> {"x", "sigma"},      kind |-> "release"],    \* mst.py:39
        [dst |-> "log1",     srcs |-> {"y", "sigma"},      kind |-> "assign"],
        [dst |-> "supports", srcs |-> {"log1"},            kind |-> "assign"],     \* compress_domain reads y only
        [dst |-> "data2",    srcs |-> {"data", "supports"}, kind |-> "assign"],    \* transform_data: private
        [dst |-> "est",      srcs |-> {"log1"},            kind |-> "assign"],
        [dst |-> "weights",  srcs |-> {"data2", "est"},    kind |-> "assign"],     \* mst.py:76-78 private scores
        [dst |-> "edge",     srcs |-> {"weights", "eps"},  kind |-> "select"],     \* mst.py:93
        [dst |-> "cliques",  srcs |-> {"edge"},            kind |-> "assign"],
        [dst |-> "x2",       srcs |-> {"data2", "cliques"}, kind |-> "assign"],
        [dst |-> "y2",       srcs |-> {"x2", "sigma"},     kind |-> "release"],
        [dst |-> "model",    srcs |-> {"log1", "y2", "cliques"}, kind |-> "assign"],
        [dst |-> "synth",    srcs |-> {"model", "supports"}, kind |-> "output"] >>
    [] m = "AIM" -> <<
        [dst |-> "answers",  srcs |-> {"data"},            kind |-> "assign"],     \* aim.py:68
        [dst |-> "y",        srcs |-> {"answers", "sigma"}, kind |-> "release"],   \* aim.py:79-80
        [dst |-> "model",    srcs |-> {"y"},               kind |-> "assign"],
        [dst |-> "term",     srcs |-> {"rho_used", "sigma", "eps"}, kind |-> "branch"],   \* aim.py:92
        [dst |-> "cands",    srcs |-> {"model", "rho_used"}, kind |-> "assign"],   \* filter_candidates
        [dst |-> "errors",   srcs |-> {"answers", "model", "cands"}, kind |-> "assign"],
        [dst |-> "cl",       srcs |-> {"errors", "eps"},   kind |-> "select"],     \* aim.py:103
        [dst |-> "y",        srcs |-> {"answers", "cl", "sigma"}, kind |-> "release"],
        [dst |-> "model",    srcs |-> {"y", "model"},      kind |-> "assign"],
        [dst |-> "anneal",   srcs |-> {"model", "sigma"},  kind |-> "branch"],     \* aim.py:115 compares two MODEL answers
        [dst |-> "sigma",    srcs |-> {"sigma", "anneal"}, kind |-> "assign"],
        [dst |-> "synth",    srcs |-> {"model"},           kind |-> "output"] >>
    [] m = "MWEM" -> <<
        [dst |-> "total",    srcs |-> IF b THEN {"records"} ELSE {}, kind |-> "assign"],  \* mwem+pgm.py:79 (Deliberate under bounded)
        [dst |-> "answers",  srcs |-> {"data"},            kind |-> "assign"],
        [dst |-> "est",      srcs |-> {"total"},           kind |-> "assign"],
        [dst |-> "cands",    srcs |-> {"cliques"},         kind |-> "assign"],
        [dst |-> "errors",   srcs |-> {"answers", "est", "cands"}, kind |-> "assign"],
        [dst |-> "ax",       srcs |-> {"errors", "eps"},   kind |-> "select"],
        [dst |-> "y",        srcs |-> {"data", "ax", "sigma"}, kind |-> "release"],
        [dst |-> "est",      srcs |-> {"y", "ax", "total"}, kind |-> "assign"],
        [dst |-> "cliques",  srcs |-> {"cliques", "ax"},   kind |-> "assign"],
        [dst |-> "synth",    srcs |-> {"est"},             kind |-> "output"] >>
    [] m = "AdaGrid" -> <<
        [dst |-> "Q",        srcs |-> {"plaus", "matrices"}, kind |-> "assign"],   \* adaptive_grid.py:289-298
        [dst |-> "mu",       srcs |-> {"data"},            kind |-> "assign"],
        [dst |-> "y",        srcs |-> {"mu", "Q", "sigma"}, kind |-> "release"],   \* l.305-306
        [dst |-> "plaus",    srcs |-> {"y", "sigma"},      kind |-> "assign"],     \* l.310: thresholds the NOISY answers
        [dst |-> "matrices", srcs |-> {"Q"},               kind |-> "assign"],
        [dst |-> "model",    srcs |-> {"y", "Q"},          kind |-> "assign"],
        [dst |-> "weights",  srcs |-> {"data", "model"},   kind |-> "assign"],
        [dst |-> "edge",     srcs |-> {"weights", "eps"},  kind |-> "select"],
        [dst |-> "queries",  srcs |-> {"edge"},            kind |-> "assign"],
        [dst |-> "Q",        srcs |-> {"plaus", "matrices", "queries"}, kind |-> "assign"],
        [dst |-> "y",        srcs |-> {"mu", "Q", "sigma"}, kind |-> "release"],
        [dst |-> "model",    srcs |-> {"y", "Q"},          kind |-> "assign"],
        [dst |-> "synth",    srcs |-> {"model"},           kind |-> "output"] >>

PrivateInputs == {"data", "records"}
\* under replace-one adjacency the number of records is the same for both datasets: public (ASSUME-like, named)
Deliberate(m, b) == IF m = "MWEM" /\ b THEN {"records"} ELSE {}

VARIABLES mech, bnd, pc, taint, leak
vars == <<mech, bnd, pc, taint, leak>>
Init == /\ mech \in Mechs /\ bnd \in Bounded /\ pc = 1 /\ leak = {}
        /\ taint = [v \in {"data", "records"} |-> "priv"]
TaintOf(v) == IF v \in DOMAIN taint THEN (IF v \in Deliberate(mech, bnd) THEN "pub" ELSE taint[v]) ELSE "pub"
Step ==
  /\ pc <= Len(Prog(mech, bnd))
  /\ LET s == Prog(mech, bnd)[pc]
         in == IF \E v \in s.srcs : TaintOf(v) = "priv" THEN "priv" ELSE "pub"
         \* a DP primitive's RESULT is an observation: public whatever its operand (that is what the budget pays for)
         out == IF s.kind \in {"release", "select"} THEN "pub" ELSE in
     IN  /\ taint' = [v \in DOMAIN taint \cup {s.dst} |-> IF v = s.dst THEN out ELSE taint[v]]
         /\ leak' = IF s.kind \in {"branch", "output"} /\ in = "priv" THEN leak \cup {s.dst} ELSE leak
         \* noise scales and selection parameters of a primitive must be public
         /\ (s.kind \in {"release", "select"} /\ \E v \in s.srcs \cap {"sigma", "eps", "Q", "cands", "cl", "ax", "cliques"} : TaintOf(v) = "priv")
              => FALSE
  /\ pc' = pc + 1 /\ UNCHANGED <<mech, bnd>>
Next == Step
Spec == Init /\ [][Next]_vars
\* C06: control flow and output never depend on the private data except through the primitives
NoLeak == leak = {}
PublicStaysPublic == \A v \in DOMAIN taint \cap {"sigma", "eps", "model", "est", "cands", "cliques", "supports", "plaus", "matrices", "queries", "total", "log1"} :
                       TaintOf(v) = "pub"
=============================================================================
