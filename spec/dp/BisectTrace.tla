---------------------------- MODULE BisectTrace ----------------------------
(* Validates (a) the bisection iterations of real cdp_rho / cdp_eps /       *)
(* cdp_delta calls recorded through hook H6 against Bisect.tla, with the    *)
(* predicate evaluated INDEPENDENTLY by the harness from the published      *)
(* bound (arXiv:2004.00010, Prop. 12:                                       *)
(*   delta(alpha) = exp((alpha-1)(alpha rho - eps) + alpha log1p(-1/alpha)) *)
(*                  / (alpha - 1),  minimised over alpha in [1.01, inf) ),  *)
(* and (b) relations between returned values on dense grids (soundness,     *)
(* Gaussian lower bound, tightness, monotonicity, inverses), logged as      *)
(* fixed-point logarithms in micro-units.                                   *)
(* Events:                                                                  *)
(*   iter  [branch "lo"/"hi", mid_ok, other_kept, pred (independent),       *)
(*          near (the two evaluations are too close to call)]               *)
(*   ret   [end "lo"/"hi"]                                                  *)
(*   rel   [op "leq"/"near", a, b, tol]                                     *)
EXTENDS Integers, Sequences, TLC, TraceLib

CONSTANT Strict    \* TRUE: every iteration must be a step of Bisect.tla; FALSE: only the relations between returned values (C07)
VARIABLES tid, l
tvars == <<tid, l>>
T == Traces[tid]
Ev == T.events[l]
TraceInit == tid \in 1..NTraces /\ l = 1
Adv == l' = l + 1 /\ UNCHANGED tid
\* which end must move for the search kind, given the predicate value (Bisect.tla Step)
Moves(kind, pred) == IF kind = "low" THEN (IF pred THEN "lo" ELSE "hi") ELSE (IF pred THEN "hi" ELSE "lo")
Iter == /\ l <= Len(T.events) /\ Ev.k = "iter"
        /\ Strict => (/\ Ev.mid_ok                         \* mid = (lo + hi) / 2 of the previous interval
                      /\ Ev.other_kept                     \* exactly one end moves, to mid
                      /\ (Ev.near \/ Ev.branch = Moves(T.kind, Ev.pred)))
        /\ Adv
Ret == /\ l <= Len(T.events) /\ Ev.k = "ret"
       /\ Strict => Ev.end = (IF T.kind = "low" THEN "lo" ELSE "hi")       \* the sound end is returned
       /\ Adv
Rel == /\ l <= Len(T.events) /\ Ev.k = "rel"
       /\ IF Ev.op = "leq" THEN Ev.a <= Ev.b + Ev.tol
          ELSE (Ev.a - Ev.b <= Ev.tol /\ Ev.b - Ev.a <= Ev.tol)
       /\ Adv
TraceNext == Iter \/ Ret \/ Rel
TraceSpec == TraceInit /\ [][TraceNext]_tvars
Marker == Mark(tid, l)
ASSUME InitMarks
Post == PrintVerdicts
=============================================================================
