----------------------------- MODULE Selection -----------------------------
(* The law of the private-selection primitives (mechanisms/mechanism.py:    *)
(* 64-83, mst.py:63-67, adaptive_grid.py:182-203, mwem+pgm.py:22-41):       *)
(*     P(i)  proportional to  base_i * exp(coef * eps * q_i / sensitivity)  *)
(* with coef = 1/2, and coef = 1 only in the declared monotonic variant.    *)
(* On the lattice q_i = k_i * ln2 * sensitivity / (coef * eps) this is the  *)
(* exact rational  b_i 2^k_i / sum_j b_j 2^k_j,  which TLC computes.        *)
EXTENDS Integers, Sequences, FiniteSets, Functions, Folds, TLC, Json

CONSTANTS MaxN, KRange, Bases
VARIABLES ks, bs, shift, done
vars == <<ks, bs, shift, done>>

Pow2(n) == IF n = 0 THEN 1 ELSE 2 * (IF n = 1 THEN 1 ELSE IF n = 2 THEN 2 ELSE IF n = 3 THEN 4 ELSE IF n = 4 THEN 8 ELSE IF n = 5 THEN 16 ELSE IF n = 6 THEN 32
             ELSE IF n = 7 THEN 64 ELSE IF n = 8 THEN 128 ELSE IF n = 9 THEN 256 ELSE IF n = 10 THEN 512 ELSE IF n = 11 THEN 1024 ELSE 2048)
MinK(k) == CHOOSE m \in {k[i] : i \in DOMAIN k} : \A i \in DOMAIN k : m <= k[i]
Weight(k, b, i) == b[i] * Pow2(k[i] - MinK(k))
SumW(k, b) == FoldFunctionOnSet(LAMBDA x, y : x + y, 0, [i \in DOMAIN k |-> Weight(k, b, i)], DOMAIN k)
\* probability of candidate i as <<numerator, denominator>> (not reduced)
Prob(k, b, i) == <<Weight(k, b, i), SumW(k, b)>>

Init == /\ ks \in UNION {[1..n -> KRange] : n \in 1..MaxN}
        /\ bs \in {b \in UNION {[1..n -> Bases] : n \in 1..MaxN} : TRUE}
        /\ DOMAIN bs = DOMAIN ks
        /\ shift \in {0, 5}
        /\ done = FALSE
Emit == /\ ~done /\ done' = TRUE
        /\ PrintT(<<"EMIT", ToJson([k |-> ks, b |-> bs, shift |-> shift, p |-> [i \in DOMAIN ks |-> Prob(ks, bs, i)]])>>)
        /\ UNCHANGED <<ks, bs, shift>>
Next == Emit
Spec == Init /\ [][Next]_vars

Shifted == [i \in DOMAIN ks |-> ks[i] + shift]
\* adding a constant to all qualities changes nothing
ShiftInvariant == \A i \in DOMAIN ks : Prob(Shifted, bs, i)[1] * Prob(ks, bs, i)[2] = Prob(ks, bs, i)[1] * Prob(Shifted, bs, i)[2]
Normalised == FoldFunctionOnSet(LAMBDA x, y : x + y, 0, [i \in DOMAIN ks |-> Prob(ks, bs, i)[1]], DOMAIN ks) = SumW(ks, bs)
\* equal quality and equal base measure => equal probability; higher quality (same base) => not less likely
Symmetric == \A i, j \in DOMAIN ks : (ks[i] = ks[j] /\ bs[i] = bs[j]) => Prob(ks, bs, i) = Prob(ks, bs, j)
Monotone == \A i, j \in DOMAIN ks : (ks[i] >= ks[j] /\ bs[i] = bs[j]) => Prob(ks, bs, i)[1] >= Prob(ks, bs, j)[1]
\* one more unit of quality exactly doubles the odds
Doubling == \A i, j \in DOMAIN ks : (ks[i] = ks[j] + 1 /\ bs[i] = bs[j]) => Prob(ks, bs, i)[1] = 2 * Prob(ks, bs, j)[1]
=============================================================================
