------------------------------ MODULE NITrace ------------------------------
(* Validates PAIRS of recorded executions (D recorded, neighbour D' made to *)
(* observe the same released values and selections) for C06: the two event  *)
(* streams must agree primitive by primitive on kind, noise distribution,   *)
(* noise scale (bitwise), operand shape / number of candidates, on the      *)
(* post-processing randomness consumed, and on the returned data; the       *)
(* returned data must conform to the input's original domain.               *)
EXTENDS Integers, Sequences, TLC, TraceLib
VARIABLES tid, l, ok
tvars == <<tid, l, ok>>
Ev == Traces[tid].events[l]
TraceInit == tid \in 1..NTraces /\ l = 1 /\ ok = TRUE
Prim == /\ l <= Len(Traces[tid].events) /\ Ev.k = "Prim"
        /\ Ev.kind1 = Ev.kind2               \* Release/Select, gaussian/laplace
        /\ Ev.scale1 = Ev.scale2 /\ Ev.scale_bits_equal
        /\ Ev.n1 = Ev.n2                     \* cells released / candidates offered
        /\ l' = l + 1 /\ UNCHANGED <<tid, ok>>
Out == /\ l <= Len(Traces[tid].events) /\ Ev.k = "Out"
       /\ Ev.nprim1 = Ev.nprim2 /\ Ev.nprim1 = l - 1      \* same number of primitives, all consumed above
       /\ Ev.posts_equal /\ Ev.same_output
       /\ Ev.domain_attrs = Traces[tid].domain_attrs /\ Ev.domain_shape = Traces[tid].domain_shape
       /\ l' = l + 1 /\ UNCHANGED <<tid, ok>>
TraceNext == Prim \/ Out
TraceSpec == TraceInit /\ [][TraceNext]_tvars
Marker == Mark(tid, l)
ASSUME InitMarks
Post == PrintVerdicts
=============================================================================
