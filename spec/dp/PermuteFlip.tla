---------------------------- MODULE PermuteFlip ----------------------------
(* permute_and_flip (mechanisms/mechanism.py:57-63) as a state machine:      *)
(*     q = qualities - max;  p_i = exp(eps/(2 sens) * q_i)                   *)
(*     for i in random permutation:  if rand() <= p_i: return i              *)
(* On the lattice q_i = k_i * 2 sens ln2 / eps (k_i <= 0, max k = 0) the      *)
(* acceptance probabilities are the exact rationals 2^k_i.  One action per   *)
(* random draw of the code: Pick (next element of the permutation = uniform  *)
(* choice among the unvisited), Accept / Reject (the coin).  Reject is       *)
(* impossible for a best candidate because rand() < 1 = p.                   *)
(* This primitive has, by design, another law than the exponential           *)
(* mechanism (C20 does not speak about it); what is specified here is what   *)
(* its publication promises: it always returns, it is eps-DP, and its        *)
(* expected error is never above the exponential mechanism's.                *)
EXTENDS Integers, Sequences, FiniteSets, TLC, Json, Rat

CONSTANTS MaxN,     \* at most MaxN candidates
          QMax,     \* raw integer scores 0..QMax (one unit = 2 sens ln2 / eps)
          Coef      \* 1 = the published coefficient eps/(2 sens); 2 = "the 1/2 forgotten" (negative control: PrivacyBound must fail)
VARIABLES qs, qn,   \* raw scores of the run, and of a neighbouring input (each score moved by at most one unit)
          rem, cur, ret, path, pr
vars == <<qs, qn, rem, cur, ret, path, pr>>

MaxOf(q) == CHOOSE m \in {q[i] : i \in DOMAIN q} : \A i \in DOMAIN q : q[i] <= m
K(q) == [i \in DOMAIN q |-> q[i] - MaxOf(q)]          \* l.59: shift by the maximum
RECURSIVE Pow2(_)
Pow2(n) == IF n <= 0 THEN 1 ELSE 2 * Pow2(n - 1)
PAcc(k) == <<1, Pow2(-Coef * k)>>                     \* 2^k for k <= 0
PRej(k) == <<Pow2(-Coef * k) - 1, Pow2(-Coef * k)>>

Neighbours(q) == {r \in [DOMAIN q -> -1..(QMax + 1)] : \A i \in DOMAIN q : r[i] - q[i] \in {-1, 0, 1}}
Init == /\ qs \in UNION {[1..n -> 0..QMax] : n \in 1..MaxN}
        /\ qn \in Neighbours(qs)
        /\ rem = DOMAIN qs /\ cur = 0 /\ ret = 0 /\ path = <<>> /\ pr = <<1, 1>>
Pick(i) == /\ ret = 0 /\ cur = 0 /\ i \in rem
           /\ cur' = i /\ rem' = rem \ {i}
           /\ pr' = RMul(pr, <<1, Cardinality(rem)>>)
           /\ UNCHANGED <<qs, qn, ret, path>>
Accept == /\ ret = 0 /\ cur # 0
          /\ ret' = cur /\ cur' = 0
          /\ path' = Append(path, [i |-> cur, acc |-> TRUE])
          /\ pr' = RMul(pr, PAcc(K(qs)[cur]))
          /\ UNCHANGED <<qs, qn, rem>>
Reject == /\ ret = 0 /\ cur # 0 /\ K(qs)[cur] < 0
          /\ cur' = 0
          /\ path' = Append(path, [i |-> cur, acc |-> FALSE])
          /\ pr' = RMul(pr, PRej(K(qs)[cur]))
          /\ UNCHANGED <<qs, qn, rem, ret>>
Next == (\E i \in DOMAIN qs : Pick(i)) \/ Accept \/ Reject
Spec == Init /\ [][Next]_vars

-----------------------------------------------------------------------------
\* the output law, computed without the state machine: L(S, i) = probability that i is returned when S is unvisited
RECURSIVE L(_, _, _)
L(k, S, i) ==
  IF i \notin S THEN <<0, 1>>
  ELSE LET n == Cardinality(S)
           term(j) == IF j = i THEN PAcc(k[i]) ELSE RMul(PRej(k[j]), L(k, S \ {j}, i))
           RECURSIVE SumOver(_)
           SumOver(T) == IF T = {} THEN <<0, 1>> ELSE LET j == CHOOSE x \in T : TRUE IN RAdd(term(j), SumOver(T \ {j}))
       IN  RMul(<<1, n>>, SumOver(S))
Law(q) == [i \in DOMAIN q |-> L(K(q), DOMAIN q, i)]
RECURSIVE RSum(_, _)
RSum(f, S) == IF S = {} THEN <<0, 1>> ELSE LET j == CHOOSE x \in S : TRUE IN RAdd(f[j], RSum(f, S \ {j}))
EMLaw(q) == LET k == K(q) m == CHOOSE v \in {k[i] : i \in DOMAIN k} : \A i \in DOMAIN k : v <= k[i]
                w == [i \in DOMAIN k |-> Pow2(k[i] - m)] tot == RSum([i \in DOMAIN k |-> <<w[i], 1>>], DOMAIN k)
            IN  [i \in DOMAIN k |-> <<w[i], tot[1]>>]

AtStart == rem = DOMAIN qs /\ cur = 0 /\ ret = 0
\* the loop can never run off its end (the function would return None): a best candidate is accepted with certainty
AlwaysReturns == ~(rem = {} /\ cur = 0 /\ ret = 0)
LawNormalised == AtStart => REq(RSum(Law(qs), DOMAIN qs), <<1, 1>>)
\* eps-DP with eps = 2 ln 2 per unit of score (sensitivity one unit): probabilities on neighbouring inputs within a factor e^eps = 4
PrivacyBound == AtStart => \A i \in DOMAIN qs : RLeq(Law(qs)[i], RMul(<<4, 1>>, Law(qn)[i]))
\* never worse than the exponential mechanism in expected error (McKenna & Sheldon 2020, Thm 2)
ExpErr(law, q) == RSum([i \in DOMAIN q |-> RMul(law[i], <<-K(q)[i], 1>>)], DOMAIN q)
NoWorseThanEM == AtStart => RLeq(ExpErr(Law(qs), qs), ExpErr(EMLaw(qs), qs))
\* the path probabilities of the machine add up to the closed-form law (checked per terminal state: pr <= Law, and
\* the law is what the harness compares the emitted paths against)
PathBelowLaw == ret # 0 => RLeq(pr, Law(qs)[ret])
Emit == (ret # 0 /\ qn = qs) => PrintT(<<"EMIT", ToJson([q |-> qs, k |-> K(qs), path |-> path, ret |-> ret, pr |-> pr,
                                                          law |-> Law(qs)])>>)
=============================================================================
