------------------------------ MODULE Tables ------------------------------
(* Shared vocabulary (DESIGN 3): tables addressed by attribute NAME.         *)
(* An assignment is a function from a set of attribute names to values; a   *)
(* table is a record [at |-> attribute set, v |-> [assignments -> Int]].    *)
(* Integers stand for exp(log-potential): product = Mul, logsumexp = Marg,  *)
(* -inf = 0, the -inf-aware subtraction = Div0 (DESIGN 1.1).                *)
EXTENDS Integers, Sequences, FiniteSets, Functions, Folds, SequencesExt

Restr(f, B) == [a \in B |-> f[a]]
SeqRange(s) == {s[i] : i \in DOMAIN s}

MaxOf(S) == CHOOSE x \in S : \A y \in S : y <= x
MinOf(S) == CHOOSE x \in S : \A y \in S : x <= y

\* all assignments of attribute set A under size function sz
Asg(A, sz) == IF A = {} THEN {<<>>}
              ELSE LET mx == MaxOf({sz[a] : a \in A})
                   IN  {f \in [A -> 0..(mx - 1)] : \A a \in A : f[a] < sz[a]}

\* row-major enumeration of the assignments of the attribute SEQUENCE seq
RECURSIVE AsgSeq(_, _)
AsgSeq(seq, sz) ==
  IF seq = <<>> THEN << <<>> >>
  ELSE LET a == Head(seq)
           rest == AsgSeq(Tail(seq), sz)
           n == Len(rest)
       IN  [i \in 1..(sz[a] * n) |-> (a :> ((i - 1) \div n)) @@ rest[((i - 1) % n) + 1]]

SizeOf(A, sz) == Cardinality(Asg(A, sz))

ConstTbl(A, sz, c) == [at |-> A, v |-> [f \in Asg(A, sz) |-> c]]
One(sz) == ConstTbl({}, sz, 1)

\* table from a flat row-major value list over the attribute sequence seq
FromFlat(seq, sz, vals) ==
  LET as == AsgSeq(seq, sz)
  IN  [at |-> SeqRange(seq),
       v |-> [f \in SeqRange(as) |-> vals[CHOOSE i \in DOMAIN as : as[i] = f]]]

\* flat row-major values of table t in the attribute order seq
Flat(t, seq, sz) == LET as == AsgSeq(seq, sz) IN [i \in DOMAIN as |-> t.v[as[i]]]

SumFn(f, S) == FoldFunctionOnSet(LAMBDA x, y : x + y, 0, f, S)
Total(t) == SumFn(t.v, DOMAIN t.v)

\* pointwise combination by NAME: cell x of the result takes t1 at x|at1 and t2 at x|at2
Lift2(Op(_, _), t1, t2, sz) ==
  LET A == t1.at \cup t2.at
  IN  [at |-> A, v |-> [f \in Asg(A, sz) |-> Op(t1.v[Restr(f, t1.at)], t2.v[Restr(f, t2.at)])]]

Mul(t1, t2, sz) == Lift2(LAMBDA x, y : x * y, t1, t2, sz)
Add(t1, t2, sz) == Lift2(LAMBDA x, y : x + y, t1, t2, sz)
Sub(t1, t2, sz) == Lift2(LAMBDA x, y : x - y, t1, t2, sz)

\* exact division with 0/0 := 0  (graphical_model.py:162 with factor.py:161-165)
DivCell(x, y) == IF y = 0 THEN 0 ELSE x \div y
Div0(t1, t2, sz) == Lift2(DivCell, t1, t2, sz)
DivExact(t1, t2) == \A f \in DOMAIN t1.v :
                      LET y == t2.v[Restr(f, t2.at)] x == t1.v[f]
                      IN  IF y = 0 THEN x = 0 ELSE x % y = 0

\* marginal onto attribute set B (sum over the others)
Marg(t, B, sz) ==
  LET K == t.at \cap B
  IN  [at |-> K, v |-> [g \in Asg(K, sz) |-> SumFn(t.v, {f \in DOMAIN t.v : Restr(f, K) = g})]]

Scale(t, c) == [at |-> t.at, v |-> [f \in DOMAIN t.v |-> c * t.v[f]]]

RECURSIVE MulAll(_, _)
MulAll(ts, sz) == IF ts = <<>> THEN One(sz) ELSE Mul(Head(ts), MulAll(Tail(ts), sz), sz)

\* projective equality: t1 / Total(t1) = t2 / Total(t2), cross-multiplied
PropTo(t1, t2) == /\ t1.at = t2.at
                  /\ LET z1 == Total(t1) z2 == Total(t2)
                     IN  \A f \in DOMAIN t1.v : t1.v[f] * z2 = t2.v[f] * z1
=============================================================================
