------------------------------ MODULE Graphs ------------------------------
(* Undirected graphs as sets of 2-element sets; elimination, fill-in,       *)
(* maximal cliques, spanning trees, running intersection.                   *)
EXTENDS Integers, Sequences, FiniteSets

Pairs(S) == {{a, b} : a, b \in S} \ {{a} : a \in S}
Nbrs(E, n) == {m \in UNION E : {n, m} \in E} \ {n}
Complete(E, c) == Pairs(c) \subseteq E

\* edges of the clique graph of a collection of attribute sets
MoralEdges(cls) == UNION {Pairs(c) : c \in cls}

\* fill-in edges produced by eliminating the nodes of seq in order (junction_tree.py:49-56)
RECURSIVE FillIn(_, _, _)
FillIn(E, alive, seq) ==
  IF seq = <<>> THEN {}
  ELSE LET n == Head(seq)
           nb == {m \in alive : {n, m} \in E} \ {n}
           new == Pairs(nb)
       IN  new \cup FillIn((E \cup new), alive \ {n}, Tail(seq))

MaxCliques(V, E) ==
  {c \in (SUBSET V) \ {{}} : Complete(E, c) /\ \A n \in V \ c : ~Complete(E, c \cup {n})}

\* nodes reachable from the set R using edges TE restricted to node set N
RECURSIVE Reach(_, _, _)
Reach(R, N, TE) ==
  LET R2 == R \cup {m \in N : \E r \in R : {r, m} \in TE}
  IN  IF R2 = R THEN R ELSE Reach(R2, N, TE)

Connected(N, TE) == N = {} \/ Reach({CHOOSE n \in N : TRUE}, N, TE) = N

IsSpanningTree(N, TE) ==
  /\ TE \subseteq Pairs(N)
  /\ Cardinality(TE) = Cardinality(N) - 1
  /\ Connected(N, TE)

SpanningTrees(N) == {TE \in SUBSET Pairs(N) : IsSpanningTree(N, TE)}

\* weight of a tree edge {c,d} = |c \cap d|
EdgeSep(e) == LET c == CHOOSE c \in e : TRUE
                  d == CHOOSE d \in e : d # c
              IN  c \cap d
RECURSIVE TreeWeight(_)
TreeWeight(TE) == IF TE = {} THEN 0
                  ELSE LET e == CHOOSE e \in TE : TRUE
                       IN  Cardinality(EdgeSep(e)) + TreeWeight(TE \ {e})

MaxWeightTrees(N) ==
  LET all == SpanningTrees(N)
  IN  {T \in all : \A U \in all : TreeWeight(U) <= TreeWeight(T)}

\* running intersection: the nodes containing any attribute induce a connected subtree
RIP(N, TE) == \A a \in UNION N : LET Na == {c \in N : a \in c} IN Connected(Na, {e \in TE : e \subseteq Na})

\* B separates X from Y in graph (V,E): no path from X to Y avoiding B
Separates(V, E, B, X, Y) == Reach(X \ B, V \ B, E) \cap Y = {}
=============================================================================
