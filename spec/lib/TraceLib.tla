------------------------------ MODULE TraceLib ------------------------------
(* Batched trace validation (DESIGN 2.2): a JSON array of traces is read    *)
(* from the file named by the environment variable TRACE_FILE; the trace    *)
(* spec carries `tid` (which trace) and `l` (next event); register tid      *)
(* holds the furthest position reached; the POSTCONDITION prints one        *)
(* VERDICT line per trace.  Run with -workers 1.                            *)
EXTENDS Integers, Sequences, TLC, TLCExt, Json, IOUtils

Traces == JsonDeserialize(IOEnv.TRACE_FILE)
NTraces == Len(Traces)
ToSet(s) == {s[i] : i \in DOMAIN s}

InitMarks == \A i \in 1..NTraces : TLCSet(i, 0)
Mark(tid, l) == TLCSet(tid, IF TLCGet(tid) < l THEN l ELSE TLCGet(tid))
PrintVerdicts == \A i \in 1..NTraces : PrintT(<<"VERDICT", i, TLCGet(i), Len(Traces[i].events) + 1>>)
=============================================================================
