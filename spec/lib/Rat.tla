-------------------------------- MODULE Rat --------------------------------
(* Rationals as <<num, den>> with den > 0 (DESIGN 1.2).                      *)
EXTENDS Integers
RECURSIVE GCD(_, _)
GCD(a, b) == IF b = 0 THEN (IF a < 0 THEN -a ELSE a) ELSE GCD(b, a % b)
Abs(x) == IF x < 0 THEN -x ELSE x
RNorm(r) == LET g == GCD(Abs(r[1]), r[2]) IN IF g = 0 THEN <<0, 1>> ELSE <<r[1] \div g, r[2] \div g>>
R(n, d) == IF d < 0 THEN RNorm(<<-n, -d>>) ELSE RNorm(<<n, d>>)
RInt(n) == <<n, 1>>
RAdd(a, b) == R(a[1] * b[2] + b[1] * a[2], a[2] * b[2])
RSub(a, b) == R(a[1] * b[2] - b[1] * a[2], a[2] * b[2])
RMul(a, b) == R(a[1] * b[1], a[2] * b[2])
RDiv(a, b) == R(a[1] * b[2], a[2] * b[1])
RLeq(a, b) == a[1] * b[2] <= b[1] * a[2]
RLt(a, b) == a[1] * b[2] < b[1] * a[2]
REq(a, b) == a[1] * b[2] = b[1] * a[2]
=============================================================================
