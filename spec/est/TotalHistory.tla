---------------------------- MODULE TotalHistory ----------------------------
(* The total used by a call is a function of THAT call's arguments only     *)
(* (inference.py:289-304 runs on every call, warm start or not): a supplied *)
(* total is used exactly, an omitted one is re-estimated from the call's    *)
(* own measurements.  All call histories up to Depth over a small alphabet. *)
EXTENDS Integers, Sequences, TLC, Json
CONSTANTS Depth,
          Givens,      \* supplied totals (integers standing for the driver's values)
          Lists        \* identifiers of measurement lists whose estimate the driver knows
VARIABLES warm, hist
Calls == [k : {"given"}, v : Givens, l : Lists] \cup [k : {"omitted"}, v : {0}, l : Lists]
Init == warm \in BOOLEAN /\ hist = <<>>
Expect(c) == IF c.k = "given" THEN [src |-> "given", v |-> c.v] ELSE [src |-> "estimate", v |-> c.l]
Call(c) == /\ Len(hist) < Depth
           /\ hist' = Append(hist, [call |-> c, expect |-> Expect(c)])      \* no dependence on earlier calls
           /\ UNCHANGED warm
Next == \E c \in Calls : Call(c)
Spec == Init /\ [][Next]_<<warm, hist>>
Emit == Len(hist) = Depth => PrintT(<<"EMIT", ToJson([warm |-> warm, hist |-> hist])>>)
HistoryFree == \A i, j \in DOMAIN hist : hist[i].call = hist[j].call => hist[i].expect = hist[j].expect
=============================================================================
