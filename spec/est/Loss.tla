-------------------------------- MODULE Loss --------------------------------
(* The estimation objective (src/mbi/inference.py:247-279, 320-361).        *)
(* Integer arithmetic: noise scales are 1/2, 1 or 2, so w4 = 4/noise^2 and  *)
(* w2 = 2/noise are integers and                                            *)
(*     Loss8  = 8 * L2 loss = sum_k w4_k |Q_k m_k - y_k|^2                  *)
(*     L1x2   = 2 * L1 loss = sum_k w2_k |Q_k m_k - y_k|_1                  *)
(*     g4     = 4 * gradient = sum_{k in group} w4_k expand(Q_k^T r_k)      *)
(* m_k is the clique marginal projected onto proj_k IN THE ORDER proj_k     *)
(* LISTS ITS ATTRIBUTES.  Grouping: each measurement is assigned to exactly *)
(* one model clique (Assign, l.339-343).  Lipschitz (l.345-361) is modelled *)
(* with the rule LipRule.                                                   *)
EXTENDS Tables, TLC, Json

CONSTANTS Insts,      \* sequence of instances (see harness/checks/c04.py)
          LipRule     \* "size" (same clique as the loss) or "model" (first containing clique in model order)

VARIABLES iid, group, k, done
vars == <<iid, group, k, done>>
I == Insts[iid]
NM == Len(I.meas)
NC == Len(I.cliques)

CliqueSet(c) == SeqRange(I.cliques[c])
Holds(c, m) == SeqRange(I.meas[m].proj) \subseteq CliqueSet(c)
CSize(c) == SizeOf(CliqueSet(c), I.sz)
\* l.339: first clique in ascending size order (stable: ties keep model order)
Before(c, d) == CSize(c) < CSize(d) \/ (CSize(c) = CSize(d) /\ c < d)
SizeHome(m) == CHOOSE c \in 1..NC : Holds(c, m) /\ \A d \in 1..NC : (Holds(d, m) /\ d # c) => Before(c, d)
ModelHome(m) == CHOOSE c \in 1..NC : Holds(c, m) /\ \A d \in 1..NC : Holds(d, m) => c <= d

Init == iid \in DOMAIN Insts /\ group = <<>> /\ k = 1 /\ done = FALSE
Assign == /\ k <= Len(Insts[iid].meas)
          /\ group' = Append(group, SizeHome(k))
          /\ k' = k + 1 /\ UNCHANGED <<iid, done>>

\* ---------------- values at the candidate point (a consistent marginal vector from joint p)
P == FromFlat(I.ord, I.sz, I.p)
Mu(c) == Marg(P, CliqueSet(c), I.sz)
MatVec(Q, x) == [i \in DOMAIN Q |-> SumFn([j \in DOMAIN x |-> Q[i][j] * x[j]], DOMAIN x)]
TMatVec(Q, r, n) == [j \in 1..n |-> SumFn([i \in DOMAIN Q |-> Q[i][j] * r[i]], DOMAIN Q)]
Abs(x) == IF x < 0 THEN -x ELSE x
Dot(a, b) == SumFn([i \in DOMAIN a |-> a[i] * b[i]], DOMAIN a)

\* residual of measurement m evaluated on an arbitrary table t that covers its projection
Resid(m, t) == LET M == I.meas[m] x == Flat(Marg(t, SeqRange(M.proj), I.sz), M.proj, I.sz)
               IN  [i \in DOMAIN M.y |-> MatVec(M.Q, x)[i] - M.y[i]]
Loss8On(t, ms) == SumFn([m \in ms |-> I.meas[m].w4 * Dot(Resid(m, t), Resid(m, t))], ms)
L1x2On(t, ms) == SumFn([m \in ms |-> I.meas[m].w2 * SumFn([i \in DOMAIN Resid(m, t) |-> Abs(Resid(m, t)[i])], DOMAIN Resid(m, t))], ms)
AllM == 1..NM
Loss8 == Loss8On(P, AllM)
L1x2 == L1x2On(P, AllM)

\* 4 * gradient w.r.t. the cells of table t (clique marginal or the joint) of the measurements ms
Grad4(t, ms) ==
  [x \in DOMAIN t.v |->
     SumFn([m \in ms |-> LET M == I.meas[m]
                             back == TMatVec(M.Q, Resid(m, t), Len(M.Q[1]))
                             as == AsgSeq(M.proj, I.sz)
                         IN  M.w4 * back[CHOOSE i \in DOMAIN as : as[i] = Restr(x, SeqRange(M.proj))]], ms)]

\* 2 * the L1 (sub)gradient the implementation uses (l.301-304): Q^T sign(residual) / noise, with sign(0) = 0
Sgn(x) == IF x < 0 THEN -1 ELSE IF x > 0 THEN 1 ELSE 0
Grad1x2(t, ms) ==
  [x \in DOMAIN t.v |->
     SumFn([m \in ms |-> LET M == I.meas[m]
                             r == Resid(m, t)
                             back == TMatVec(M.Q, [i \in DOMAIN r |-> Sgn(r[i])], Len(M.Q[1]))
                             as == AsgSeq(M.proj, I.sz)
                         IN  M.w2 * back[CHOOSE i \in DOMAIN as : as[i] = Restr(x, SeqRange(M.proj))]], ms)]

GroupOf(c) == {m \in AllM : group[m] = c}
LipHome(m) == IF LipRule = "size" THEN SizeHome(m) ELSE ModelHome(m)
\* 4 * the smoothness constant as the implementation computes it: <<num, den>> per clique, then the max
LipNumDen(c) == LET ms == {m \in AllM : LipHome(m) = c}
                IN  SumFn([m \in ms |-> I.meas[m].eig * I.meas[m].w4 * (CSize(c) \div SizeOf(SeqRange(I.meas[m].proj), I.sz))], ms)
Lip4 == MaxOf({LipNumDen(c) : c \in 1..NC} \cup {0})

Finish == /\ k = NM + 1 /\ ~done /\ done' = TRUE
          /\ PrintT(<<"EMIT", ToJson([iid |-> iid, group |-> group, loss8 |-> Loss8, l1x2 |-> L1x2, lip4 |-> Lip4,
                 g4 |-> [c \in 1..NC |-> Flat([at |-> CliqueSet(c), v |-> Grad4(Mu(c), GroupOf(c))], I.cliques[c], I.sz)],
                 gjoint4 |-> Flat([at |-> I.V, v |-> Grad4(P, AllM)], I.ord, I.sz),
                 g1joint2 |-> Flat([at |-> I.V, v |-> Grad1x2(P, AllM)], I.ord, I.sz)])>>)
          /\ UNCHANGED <<iid, group, k>>
Next == Assign \/ Finish
Spec == Init /\ [][Next]_vars

-----------------------------------------------------------------------------
Ready == k = NM + 1
\* each measurement is counted exactly once however the cliques overlap, nest or repeat
ExactlyOnce == Ready => /\ \A m \in AllM : group[m] \in 1..NC /\ Holds(group[m], m)
                        /\ Loss8 = SumFn([c \in 1..NC |-> Loss8On(Mu(c), GroupOf(c))], 1..NC)
\* the gradient is the derivative: exact central difference of the quadratic loss along every unit vector
Bump(t, x, d) == [at |-> t.at, v |-> [z \in DOMAIN t.v |-> IF z = x THEN t.v[z] + d ELSE t.v[z]]]
GradIsDerivative ==
  Ready => \A c \in 1..NC : \A x \in DOMAIN Mu(c).v :
             Loss8On(Bump(Mu(c), x, 1), GroupOf(c)) - Loss8On(Bump(Mu(c), x, -1), GroupOf(c))
               = 4 * Grad4(Mu(c), GroupOf(c))[x]
\* the L1 direction is a subgradient of the (convex, piecewise linear) absolute loss along every unit vector
L1SubGradient ==
  Ready => \A c \in 1..NC : \A x \in DOMAIN Mu(c).v :
             LET g == Grad1x2(Mu(c), GroupOf(c))[x]
             IN  /\ L1x2On(Bump(Mu(c), x, 1), GroupOf(c)) - L1x2On(Mu(c), GroupOf(c)) >= g
                 /\ L1x2On(Mu(c), GroupOf(c)) - L1x2On(Bump(Mu(c), x, -1), GroupOf(c)) <= g
\* smoothness: v'Hv <= L v'v on each clique block of the Hessian (it is block diagonal), integer directions
\* (4^cells directions for small cliques; larger cliques get {-1, 1} so that the enumeration stays below a million per clique)
DirVals(c) == IF CSize(c) <= 4 THEN {-1, 0, 1, 2} ELSE IF CSize(c) <= 6 THEN {-1, 0, 1} ELSE {-1, 1}
Dirs(c) == [Asg(CliqueSet(c), I.sz) -> DirVals(c)]
Zero(c) == [at |-> CliqueSet(c), v |-> [x \in Asg(CliqueSet(c), I.sz) |-> 0]]
Curv4(c, d) == LET t == [at |-> CliqueSet(c), v |-> d]
               IN  SumFn([m \in GroupOf(c) |->
                     LET M == I.meas[m] x == Flat(Marg(t, SeqRange(M.proj), I.sz), M.proj, I.sz) q == MatVec(M.Q, x)
                     IN  M.w4 * Dot(q, q)], GroupOf(c))
SmoothnessBound ==
  Ready => \A c \in 1..NC : \A d \in Dirs(c) :
             Curv4(c, d) <= Lip4 * SumFn([x \in DOMAIN d |-> d[x] * d[x]], DOMAIN d)
=============================================================================
