------------------------------ MODULE ZeroFlow ------------------------------
(* How a structurally impossible cell flows through the solvers             *)
(* (src/mbi/inference.py, factor.py, clique_vector.py), in an abstract      *)
(* extended-real domain (DESIGN 1.5).  One declared-zero cell z is tracked  *)
(* through every program variable that holds log-parameters:                *)
(*   NInf  -inf                 Fin   an ordinary finite number             *)
(*   Smooth log(0 + 1e-100) = -230.26 (the named deviation of Factor.log)   *)
(*   Huge  +-1.8e308 (what nan_to_num makes of +-inf in a scalar product)   *)
(*   PInf, NaN                                                              *)
(* and its probability mass: Zero, Tiny (<= 1e-100 relative), Pos, NaNm.    *)
(* The transfer functions are those of the operations AS IMPLEMENTED and    *)
(* are bound to the code one transition at a time (Transfer section).       *)
EXTENDS Integers, Sequences, TLC, Json

CONSTANTS MaxCalls,     \* length of warm-start histories
          RDARule       \* "theta0" (theta = theta0 - c*gbar) or "gbar_only" (theta = -c*gbar)

AV == {"NInf", "Fin", "Smooth", "PSm", "Huge", "PInf", "NaN"}     \* PSm: -Smooth = +230.26

\* ---------------------------------------------------------------- Transfer functions
\* Factor.__add__ (factor.py:131-137)
Add(x, y) ==
  CASE x = "NaN" \/ y = "NaN" -> "NaN"
    [] (x = "NInf" /\ y = "PInf") \/ (x = "PInf" /\ y = "NInf") -> "NaN"
    [] x = "NInf" \/ y = "NInf" -> "NInf"
    [] x = "PInf" \/ y = "PInf" -> "PInf"
    [] x = "Huge" \/ y = "Huge" -> "Huge"
    [] (x = "Smooth" /\ y = "PSm") \/ (x = "PSm" /\ y = "Smooth") -> "Fin"
    [] x = "Smooth" \/ y = "Smooth" -> "Smooth"        \* -230 plus an ordinary number is still "tiny"
    [] x = "PSm" \/ y = "PSm" -> "PSm"
    [] OTHER -> "Fin"                                  \* Fin + Fin (no overflow: assumption)
\* scalar * Factor with a finite non-zero scalar (factor.py:121-124: np.nan_to_num(c * values))
Scale(x) ==
  CASE x \in {"NInf", "PInf"} -> "Huge"               \* nan_to_num replaces +-inf by +-1.8e308
    [] x = "NaN" -> "Fin"                             \* nan_to_num replaces nan by 0
    [] x = "Huge" -> "Huge"
    [] x \in {"Smooth", "PSm"} -> x                   \* positive scalar
    [] OTHER -> "Fin"
\* Factor.__sub__(other Factor) (factor.py:161-165): a -inf subtrahend counts as 0
Neg(y) == CASE y = "NInf" -> "PInf" [] y = "PInf" -> "NInf" [] y = "Smooth" -> "PSm" [] y = "PSm" -> "Smooth" [] OTHER -> y
Sub(x, y) == IF y = "NInf" THEN x ELSE Add(x, Neg(y))
\* CliqueVector.__sub__ (clique_vector.py:73-74): self + (-1)*other - goes through Scale!
ScaleNeg(y) == CASE y \in {"NInf", "PInf"} -> "Huge" [] y = "NaN" -> "Fin" [] y = "Smooth" -> "PSm" [] y = "PSm" -> "Smooth" [] OTHER -> y
CVSub(x, y) == Add(x, ScaleNeg(y))
\* mass of a cell whose log-parameter is x after belief propagation's exp (other terms finite)
MassOf(x) == CASE x = "NInf" -> "Zero" [] x = "Smooth" -> "Tiny" [] x = "NaN" -> "NaNm"
               [] x = "Huge" -> "Pos" [] x = "PInf" -> "NaNm" [] OTHER -> "Pos"      \* Fin, PSm
\* Factor.log (factor.py:184-188) on a mass
LogOf(m) == CASE m = "Zero" -> "Smooth" [] m = "Tiny" -> "Smooth" [] m = "NaNm" -> "NaN" [] OTHER -> "Fin"
\* convex combination of two masses (both solvers average marginal vectors)
Mix(m, n) == CASE m = "NaNm" \/ n = "NaNm" -> "NaNm" [] m = "Pos" \/ n = "Pos" -> "Pos"
               [] m = "Tiny" \/ n = "Tiny" -> "Tiny" [] OTHER -> "Zero"

\* ---------------------------------------------------------------- Solver flow
VARIABLES pc, solver, call, theta, theta0, gbar, mu, avg, retPot, retMu, prevPot, n
vars == <<pc, solver, call, theta, theta0, gbar, mu, avg, retPot, retMu, prevPot, n>>

Init == /\ pc = "setup" /\ solver \in {"MD", "RDA", "IG"} /\ call = 1
        /\ theta = "Fin" /\ theta0 = "Fin" /\ gbar = "Fin" /\ mu = "Pos" /\ avg = "Pos"
        /\ retPot = "none" /\ retMu = "none" /\ prevPot = "none" /\ n = 0

\* _setup l.312-318: zeros (0) + Active (-inf on declared cells) [+ previous potentials when warm]
Setup(warm) ==
  /\ pc = "setup"
  /\ warm => prevPot # "none"
  /\ LET base == Add("Fin", "NInf")                         \* combine(self.structural_zeros)
         t0 == IF warm THEN Add(base, prevPot) ELSE base     \* combine(self.model.potentials)
     IN  theta' = t0 /\ theta0' = t0
  /\ gbar' = "Fin" /\ mu' = MassOf(theta') /\ avg' = MassOf(theta')
  /\ pc' = "loop" /\ n' = 0
  /\ UNCHANGED <<solver, call, retPot, retMu, prevPot>>

\* the gradient is computed from marginals and is finite on every cell
IterMD == /\ pc = "loop" /\ solver = "MD" /\ n < 2 /\ n' = n + 1
          /\ theta' = CVSub(theta, "Fin")                   \* l.235 theta = omega - alpha*dL
          /\ mu' = MassOf(theta')
          /\ UNCHANGED <<pc, solver, call, theta0, gbar, avg, retPot, retMu, prevPot>>
IterIG == /\ pc = "loop" /\ solver = "IG" /\ n < 2 /\ n' = n + 1
          /\ theta' = CVSub(theta, Scale("Fin"))            \* l.138 theta = theta - a/c/total * g
          /\ mu' = MassOf(theta') /\ avg' = Mix(avg, MassOf(theta'))
          /\ UNCHANGED <<pc, solver, call, theta0, gbar, retPot, retMu, prevPot>>
IterRDA == /\ pc = "loop" /\ solver = "RDA" /\ n < 2 /\ n' = n + 1
           /\ gbar' = Add(Scale(gbar), Scale("Fin"))        \* l.181
           /\ theta' = IF RDARule = "theta0" THEN Add(theta0, Scale(gbar')) ELSE Scale(gbar')   \* l.182
           /\ mu' = MassOf(theta') /\ avg' = Mix(avg, MassOf(theta'))
           /\ UNCHANGED <<pc, solver, call, theta0, retPot, retMu, prevPot>>
\* early exits store parameters only
ExitEarly == /\ pc = "loop" /\ n = 0
             /\ retPot' = theta /\ retMu' = "none" /\ pc' = "ret"
             /\ UNCHANGED <<solver, call, theta, theta0, gbar, mu, avg, prevPot, n>>
Store == /\ pc = "loop" /\ n >= 1
         /\ IF solver = "MD" THEN retPot' = theta /\ retMu' = mu                     \* l.242-243
            ELSE retMu' = avg /\ retPot' = Sub(LogOf(avg), "Fin")                   \* l.144-145/189-190 with mle l.181-188
            \* (mle divides by the separator marginal; on the first clique in mle order whose table is zero at the cell
            \*  the separator marginal is positive, so the subtrahend is an ordinary number there)
         /\ pc' = "ret"
         /\ UNCHANGED <<solver, call, theta, theta0, gbar, mu, avg, prevPot, n>>
\* the caller may estimate again on the same engine, possibly with another solver (warm start reads retPot)
Again == /\ pc = "ret" /\ call < MaxCalls
         /\ prevPot' = retPot /\ call' = call + 1 /\ pc' = "setup"
         /\ solver' \in {"MD", "RDA", "IG"}
         /\ UNCHANGED <<theta, theta0, gbar, mu, avg, retPot, retMu, n>>

Next == (\E w \in BOOLEAN : Setup(w)) \/ IterMD \/ IterIG \/ IterRDA \/ ExitEarly \/ Store \/ Again
Spec == Init /\ [][Next]_vars

\* C10: in every returned model the declared cell has no mass in either representation, and nothing is NaN
ZeroStaysZero == pc = "ret" => /\ retMu \in {"none", "Zero", "Tiny"}
                               /\ MassOf(retPot) \in {"Zero", "Tiny"}
NoNaN == theta # "NaN" /\ mu # "NaNm" /\ avg # "NaNm" /\ retPot # "NaN"

\* ---------------------------------------------------------------- Transfer table for the per-transition replay
TransferTable ==
  [add |-> [p \in AV \X AV |-> Add(p[1], p[2])], scale |-> [x \in AV |-> Scale(x)],
   sub |-> [p \in AV \X AV |-> Sub(p[1], p[2])], cvsub |-> [p \in AV \X AV |-> CVSub(p[1], p[2])]]
EmitTable == PrintT(<<"EMIT", ToJson([add |-> {<<p[1], p[2], Add(p[1], p[2])>> : p \in AV \X AV},
                                       scale |-> {<<x, Scale(x)>> : x \in AV},
                                       sub |-> {<<p[1], p[2], Sub(p[1], p[2])>> : p \in AV \X AV},
                                       cvsub |-> {<<p[1], p[2], CVSub(p[1], p[2])>> : p \in AV \X AV}])>>)
ASSUME EmitTable
=============================================================================
