------------------------------ MODULE Solvers ------------------------------
(* Control flow of the three estimation algorithms (src/mbi/inference.py:   *)
(* mirror_descent 192-245, dual_averaging 147-190, interior_gradient        *)
(* 102-145) with ghost state saying WHICH parameter vector each marginal    *)
(* vector was computed from.  Parameter and marginal vectors are named by   *)
(* version numbers; muOf[m] is the version of the parameters that belief    *)
(* propagation turned into m, or Avg for an averaged iterate.             *)
(* C08: whatever path is taken, the pair stored in the returned model is a  *)
(* legal pair (Coherent).  C03 uses the line-search part (LineSearchOK).    *)
EXTENDS Integers, Sequences, FiniteSets, TLC

CONSTANTS MaxIters,      \* iteration counts 1..MaxIters are explored
          MaxTrials      \* 25 in the implementation (inference.py:234)

VARIABLES pc, solver, iters, nols, t, i, e, theta, mu, muOf, nver, ret, forced, lastAcc
vars == <<pc, solver, iters, nols, t, i, e, theta, mu, muOf, nver, ret, forced, lastAcc>>

Unset == -1
Avg == -2
Init == /\ pc = "setup" /\ solver \in {"MD", "RDA", "IG"} /\ iters \in 1..MaxIters /\ nols \in BOOLEAN
        /\ t = 0 /\ i = 0 /\ e = 0 /\ theta = 0 /\ mu = Unset /\ muOf = <<>> /\ nver = 1
        /\ ret = [potk |-> "unset", pot |-> Unset, marg |-> Unset] /\ forced = 0 /\ lastAcc = TRUE

\* l.211-215 / 165-174 / 121-130: build the model, initial parameters (version 0), first belief propagation
Setup == /\ pc = "setup"
         /\ mu' = nver /\ muOf' = (nver :> theta) @@ muOf /\ nver' = nver + 1
         /\ pc' = "loss0"
         /\ UNCHANGED <<solver, iters, nols, t, i, e, theta, ret, forced, lastAcc>>

\* l.216-217 (MD: initial loss is exactly zero) and RDA / IG: smoothness constant is zero: only parameters exist
EarlyExit == /\ pc = "loss0"
             /\ ret' = [potk |-> "raw", pot |-> theta, marg |-> Unset]
             /\ pc' = "done"
             /\ UNCHANGED <<solver, iters, nols, t, i, e, theta, mu, muOf, nver, forced, lastAcc>>

Begin == /\ pc = "loss0" /\ t' = 1 /\ i' = 0
         /\ e' = IF solver = "MD" /\ ~nols THEN e - 1 ELSE e        \* l.225: the search restarts at twice the last step
         /\ pc' = IF solver = "MD" THEN "try" ELSE "iter"
         /\ UNCHANGED <<solver, iters, nols, theta, mu, muOf, nver, ret, forced, lastAcc>>

\* one line-search trial (l.235-240): new parameters, their marginals, the sufficient-decrease test
Try(suff) ==
  /\ pc = "try" /\ solver = "MD"
  /\ theta' = nver /\ mu' = nver + 1 /\ muOf' = ((nver + 1) :> nver) @@ muOf /\ nver' = nver + 2
  /\ LET accept == nols \/ suff
         last == i = MaxTrials - 1
         endIter == accept \/ last
     IN  /\ forced' = IF ~accept /\ last THEN forced + 1 ELSE forced       \* named deviation: forced accept
         /\ lastAcc' = accept
         /\ e' = IF accept THEN (IF t < iters /\ ~nols THEN e - 1 ELSE e)   \* next iteration doubles (l.225,233)
                 ELSE IF last THEN (IF t < iters THEN e + 1 - 1 ELSE e + 1) \* halved once more, then doubled
                 ELSE e + 1                                                 \* l.240
         /\ i' = IF endIter THEN 0 ELSE i + 1
         /\ t' = IF endIter THEN t + 1 ELSE t
         /\ pc' = IF endIter /\ t = iters THEN "store" ELSE "try"
  /\ UNCHANGED <<solver, iters, nols, ret>>

\* l.242-243
StoreMD == /\ pc = "store" /\ solver = "MD"
           /\ ret' = [potk |-> "raw", pot |-> theta, marg |-> mu] /\ pc' = "done"
           /\ UNCHANGED <<solver, iters, nols, t, i, e, theta, mu, muOf, nver, forced, lastAcc>>

\* RDA l.177-187 / IG l.133-142: new parameters, their marginals v (or z), then the averaged iterate w (or x)
IterAvg == /\ pc = "iter" /\ solver \in {"RDA", "IG"} /\ t <= iters
           /\ theta' = nver
           /\ muOf' = ((nver + 2) :> Avg) @@ ((nver + 1) :> nver) @@ muOf
           /\ mu' = nver + 2 /\ nver' = nver + 3
           /\ t' = t + 1
           /\ pc' = IF t = iters THEN "store" ELSE "iter"
           /\ UNCHANGED <<solver, iters, nols, i, e, ret, forced, lastAcc>>

\* l.144-145 / 189-190: marginals := averaged iterate, parameters := mle(marginals)
StoreAvg == /\ pc = "store" /\ solver \in {"RDA", "IG"}
            /\ ret' = [potk |-> "mle", pot |-> mu, marg |-> mu] /\ pc' = "done"
            /\ UNCHANGED <<solver, iters, nols, t, i, e, theta, mu, muOf, nver, forced, lastAcc>>

Next == Setup \/ EarlyExit \/ Begin \/ (\E s \in BOOLEAN : Try(s)) \/ StoreMD \/ IterAvg \/ StoreAvg
Spec == Init /\ [][Next]_vars

-----------------------------------------------------------------------------
\* C08: the stored (parameters, marginals) pair is a legal pair on every exit path
Coherent == pc = "done" =>
  \/ ret.marg = Unset                                    \* only parameters: every answer is computed from them
  \/ (ret.potk = "raw" /\ muOf[ret.marg] = ret.pot)     \* marginals = BP(parameters)
  \/ (ret.potk = "mle" /\ muOf[ret.marg] = Avg /\ ret.pot = ret.marg)   \* parameters = MLE(calibrated marginals); BP o MLE = id
\* the trial counter never exceeds the bound, and a forced accept happens only on the last trial
LineSearchOK == i < MaxTrials /\ (forced > 0 => ~nols)
\* exactly `iters` iterations are performed on the normal path
IterCount == (pc = "store") => t = iters + 1
=============================================================================
