---------------------------- MODULE SolverTrace ----------------------------
(* Validates hook-H2 event streams of real estimation runs against          *)
(* Solvers.tla.  The harness renumbers Python object identities to small    *)
(* integers per trace and adds, next to every logged comparison, the        *)
(* comparison it evaluated independently from the logged numbers.           *)
(* Events: setup, bp(pot, out), start(solver, iters, nols), exit(path),     *)
(*   try(t, i, e, suff, branch, theta, mu), iter(t), return(path, pot, marg)*)
EXTENDS Solvers, TraceLib

CONSTANT Strict    \* TRUE: the run must be a behaviour of Solvers.tla (counters, exact step-size exponents, branch = comparison);
                   \* FALSE: only C08's clause - the stored (parameters, marginals) pair is a legal pair
VARIABLES tid, l, bpOf        \* bpOf: observed marginal-object -> parameter-object it was computed from
tvars == <<vars, tid, l, bpOf>>
T == Traces[tid]
Ev == T.events[l]
IsEv(n) == l <= Len(T.events) /\ Ev.e = n /\ l' = l + 1 /\ UNCHANGED tid

TraceInit == /\ tid \in 1..NTraces /\ l = 1 /\ bpOf = <<>>
             /\ pc = "setup" /\ solver = Traces[tid].solver /\ iters = Traces[tid].iters /\ nols = Traces[tid].nols
             /\ t = 0 /\ i = 0 /\ e = 0 /\ theta = 0 /\ mu = Unset /\ muOf = <<>> /\ nver = 1
             /\ ret = [potk |-> "unset", pot |-> Unset, marg |-> Unset] /\ forced = 0 /\ lastAcc = TRUE

\* every belief-propagation call is recorded: which parameter object produced which marginal object
TrBP == /\ IsEv("bp") /\ bpOf' = (Ev.out :> Ev.pot) @@ bpOf /\ UNCHANGED vars
TrSetup == Strict /\ IsEv("setup") /\ Setup /\ UNCHANGED bpOf
TrExit == Strict /\ IsEv("exit") /\ EarlyExit /\ UNCHANGED bpOf
TrBegin == /\ Strict /\ pc = "loss0" /\ l <= Len(T.events) /\ Ev.e \in {"try", "iter"}
           /\ Begin /\ UNCHANGED <<tid, l, bpOf>>                        \* internal step
TrTry == /\ Strict /\ IsEv("try")
         /\ Ev.t = t /\ Ev.i = i                       \* iteration and trial counters are the spec's
         /\ Ev.ex = e                                  \* step size = alpha0 * 2^-e exactly
         /\ Ev.branch = (nols \/ Ev.suff)              \* the branch taken is the one the comparison requires
         /\ Ev.mu \in DOMAIN bpOf /\ bpOf[Ev.mu] = Ev.theta    \* the trial's marginals come from the trial's parameters
         /\ Try(Ev.suff) /\ UNCHANGED bpOf
TrIter == Strict /\ IsEv("iter") /\ Ev.t = t /\ IterAvg /\ UNCHANGED bpOf
TrReturn ==
  /\ Strict /\ IsEv("return") /\ pc = "store"
  /\ IF solver = "MD"
     THEN /\ StoreMD
          /\ Ev.marg \in DOMAIN bpOf /\ bpOf[Ev.marg] = Ev.pot          \* stored marginals = BP(stored parameters)
          /\ Ev.pot = T.lasttheta /\ Ev.marg = T.lastmu                 \* and they are the LAST trial's pair
     ELSE /\ StoreAvg /\ Ev.path = "avg"
          /\ Ev.marg # T.lastbpout                                       \* an averaged iterate, not the last BP output
  /\ UNCHANGED bpOf
TrReturnEarly == /\ Strict /\ IsEv("return") /\ pc = "done" /\ Ev.marg = 0 /\ UNCHANGED vars /\ UNCHANGED bpOf

\* lenient mode: no control-flow model, only the legality of what is stored
LSkip == ~Strict /\ l <= Len(T.events) /\ Ev.e \in {"setup", "exit", "iter"} /\ l' = l + 1 /\ UNCHANGED <<vars, tid, bpOf>>
LTry == /\ ~Strict /\ IsEv("try") /\ Ev.mu \in DOMAIN bpOf /\ bpOf[Ev.mu] = Ev.theta /\ UNCHANGED <<vars, bpOf>>
LReturn == /\ ~Strict /\ IsEv("return")
           /\ \/ Ev.marg = 0                                                   \* only parameters stored
              \/ (Ev.marg \in DOMAIN bpOf /\ bpOf[Ev.marg] = Ev.pot)            \* marginals = BP(parameters)
              \/ (Ev.path = "avg" /\ Ev.marg # T.lastbpout)                     \* parameters = MLE(averaged marginals)
           /\ UNCHANGED <<vars, bpOf>>
TraceNext == LSkip \/ LTry \/ LReturn \/ TrBP \/ TrSetup \/ TrExit \/ TrBegin \/ TrTry \/ TrIter \/ TrReturn \/ TrReturnEarly
TraceSpec == TraceInit /\ [][TraceNext]_tvars
Marker == Mark(tid, l)
ASSUME InitMarks
Post == PrintVerdicts
=============================================================================
