-------------------------------- MODULE Total --------------------------------
(* Estimation of the total when it is not supplied (src/mbi/inference.py:   *)
(* 289-304, identical in local_inference.py:185-200 and                     *)
(* public_inference.py:49-64).                                              *)
(*   Consider(k)  a measurement takes part iff the all-ones vector lies in  *)
(*                the row space of its query matrix; its unbiased estimate  *)
(*                is v.y with v the minimum-norm solution of Q^T v = 1, its *)
(*                variance noise^2 * v.v                                    *)
(*   Combine      inverse-variance weighting;  Floor1: at least 1           *)
(* Every catalogue matrix carries a WITNESS that TLC verifies exactly:      *)
(*   <<"in", vnum, vden, wnum, wden>>  Q^T v = 1 and v = Q w (so v is THE   *)
(*                minimum-norm solution)                                    *)
(*   <<"out", z>>  Q z = 0 and 1.z # 0 (Fredholm: ones not in the row space)*)
EXTENDS Rat, Sequences, FiniteSets, Functions, Folds, TLC, Json

CONSTANTS Cat,        \* sequence of [n, Q (rows), wit]
          S2s,        \* candidate noise variances, rationals <<num, den>>
          Ns,         \* dataset sizes for the noise-free theorem
          Perts,      \* perturbations of the first answer (0 = noise-free; negative values push one estimate below 1)
          MaxLen      \* measurement lists up to this length

VARIABLES ms, n0, pert, done
vars == <<ms, n0, pert, done>>

SumF(f) == FoldFunctionOnSet(LAMBDA x, y : x + y, 0, f, DOMAIN f)
Dot(a, b) == SumF([i \in DOMAIN a |-> a[i] * b[i]])
MatVec(Q, x) == [i \in DOMAIN Q |-> Dot(Q[i], x)]
TMatVec(Q, v, n) == [j \in 1..n |-> SumF([i \in DOMAIN Q |-> Q[i][j] * v[i]])]

IsIn(c) == Cat[c].wit[1] = "in"
WitnessOK(c) ==
  LET E == Cat[c] w == E.wit
  IN  IF w[1] = "in"
      THEN /\ \A j \in 1..E.n : TMatVec(E.Q, w[2], E.n)[j] = w[3]                     \* Q^T v = 1
           /\ \A i \in DOMAIN E.Q : MatVec(E.Q, w[4])[i] * w[3] = w[2][i] * w[5]      \* v = Q w
      ELSE /\ \A i \in DOMAIN E.Q : MatVec(E.Q, w[2])[i] = 0                          \* Q z = 0
           /\ SumF(w[2]) # 0                                                          \* 1.z # 0
ASSUME \A c \in DOMAIN Cat : WitnessOK(c)

\* a deterministic dataset vector of length n with n0 records: all mass spread from the last cell backwards
XVec(n, N) == [j \in 1..n |-> (N \div n) + (IF j > n - (N % n) THEN 1 ELSE 0)]
\* only the FIRST measurement of the list is perturbed, so individual estimates differ (one may fall below 1)
YOfK(k, N, p) == LET E == Cat[ms[k].c] y == MatVec(E.Q, XVec(E.n, N))
                 IN  [i \in DOMAIN y |-> y[i] + (IF i = 1 /\ k = 1 THEN p ELSE 0)]

Lists == UNION {[1..k -> [c : DOMAIN Cat, s2 : S2s]] : k \in 0..MaxLen}
Init == ms \in Lists /\ n0 \in Ns /\ pert \in Perts /\ done = FALSE

\* l.293-298
Est(m, y) == LET w == Cat[m.c].wit IN R(Dot(w[2], y), w[3])
Var(m) == LET w == Cat[m.c].wit IN RMul(m.s2, R(Dot(w[2], w[2]), w[3] * w[3]))
Used == {k \in DOMAIN ms : IsIn(ms[k].c)}
RECURSIVE RSum(_, _)
RSum(f, D) == IF D = {} THEN <<0, 1>> ELSE LET k == CHOOSE k \in D : TRUE IN RAdd(f[k], RSum(f, D \ {k}))
\* l.299-304
Result ==
  IF Used = {} THEN <<1, 1>>
  ELSE LET inv == [k \in Used |-> RDiv(<<1, 1>>, Var(ms[k]))]
           wsum == RSum(inv, Used)
           est == RDiv(RSum([k \in Used |-> RMul(Est(ms[k], YOfK(k, n0, pert)), inv[k])], Used), wsum)
       IN  IF RLt(est, <<1, 1>>) THEN <<1, 1>> ELSE est

Emit == /\ ~done /\ done' = TRUE
        /\ PrintT(<<"EMIT", ToJson([ms |-> [k \in DOMAIN ms |-> [c |-> ms[k].c, s2 |-> ms[k].s2, y |-> YOfK(k, n0, pert)]],
                                    N |-> n0, pert |-> pert, used |-> Used, total |-> Result])>>)
        /\ UNCHANGED <<ms, n0, pert>>
Next == Emit
Spec == Init /\ [][Next]_vars

\* C09: noise-free measurements of a dataset with N >= 1 records give exactly N, whatever the full-rank
\* matrices, the noise scales, and the rank-deficient measurements mixed in
NoiseFree == (pert = 0 /\ Used # {}) => Result = <<n0, 1>>
AtLeastOne == RLeq(<<1, 1>>, Result)
NoUsable == Used = {} => Result = <<1, 1>>
=============================================================================
