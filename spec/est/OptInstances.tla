--------------------------- MODULE OptInstances ---------------------------
(* An exact oracle for "the minimum achievable by any non-negative table    *)
(* with the same total" (C03).  TLC cannot minimise, but it can CERTIFY a   *)
(* given optimum: the squared-error objective is convex in the joint table, *)
(* so a table p* is optimal iff it satisfies the KKT conditions             *)
(*     G(x) = lambda on {p* > 0},   G(x) >= lambda elsewhere,               *)
(* with G the gradient w.r.t. the full joint.  Integer arithmetic as in     *)
(* Loss.tla (Loss8 = 8*loss, G4 = 4*gradient).  The oracle is itself        *)
(* model-checked: OracleSound compares with brute force over the whole grid *)
(* of non-negative integer tables with the same total, and GapBound checks  *)
(* the a-posteriori bound used on arbitrary inputs:                         *)
(*     L(q) - L* <= sum_x q(x) (G_q(x) - min G_q)      for every feasible q *)
EXTENDS Loss

PStar == P
G4 == Grad4(P, AllM)
Supp == {x \in DOMAIN P.v : P.v[x] > 0}
KKT == \E x0 \in Supp : /\ \A x \in Supp : G4[x] = G4[x0]
                        /\ \A x \in DOMAIN P.v : G4[x] >= G4[x0]

T0 == Total(P)
Cells == DOMAIN P.v
Grid == {q \in [Cells -> 0..T0] : SumFn(q, Cells) = T0}
AsTbl(q) == [at |-> I.V, v |-> q]

OracleSound == (I.brute /\ KKT) => \A q \in Grid : Loss8On(AsTbl(q), AllM) >= Loss8
Gap8(q) == LET g == Grad4(AsTbl(q), AllM)
               gmin == MinOf({g[x] : x \in Cells})
           IN  2 * SumFn([x \in Cells |-> q[x] * (g[x] - gmin)], Cells)
GapBound == (I.brute /\ KKT) => \A q \in Grid : Loss8On(AsTbl(q), AllM) - Loss8 <= Gap8(q)

OInit == iid \in DOMAIN Insts /\ group = <<>> /\ k = 1 /\ done = FALSE
OEmit == /\ ~done /\ done' = TRUE
         /\ PrintT(<<"EMIT", ToJson([iid |-> iid, kkt |-> KKT, loss8 |-> Loss8])>>)
         /\ UNCHANGED <<iid, group, k>>
OSpec == OInit /\ [][OEmit]_vars
=============================================================================
