--------------------------- MODULE EngineHistory ---------------------------
(* One FactoredInference object used for a sequence of estimate calls       *)
(* (src/mbi/inference.py:50-80, 281-343).  The object keeps state between   *)
(* calls: model, groups, history, structural_zeros, the caller-visible      *)
(* options dict.  Every write the implementation performs is an explicit    *)
(* conjunct; every read a call performs is listed in Reads.  C13:           *)
(*  - HistoryFree: without warm start, no field written by an earlier call  *)
(*    is read by a later one, so result_k = F(arguments_k);                 *)
(*  - SnapshotsStable: a model handed to the caller is never written again  *)
(*    (only its query cache may be filled, which does not change answers);  *)
(*  - InputsUntouched: the caller's objects are never in any write set.     *)
(* With warm start the previous model's parameters are read: the result may *)
(* depend on history, only the optimum reached may not (SameOptimum is      *)
(* decided by the driver against the C03 oracle).                           *)
EXTENDS Integers, Sequences, FiniteSets, TLC, Json

CONSTANTS Lists,      \* identifiers of measurement lists
          Totals,     \* identifiers of totals ("none" or a number tag)
          Engines,    \* {"MD", "RDA", "IG"}
          Depth,
          WarmModes,  \* subset of BOOLEAN to explore
          Callbacks   \* observers handed to estimate(callback=...): "none", "counter", "logger" (callbacks.Logger)

VARIABLES warm, hist, fields, handed, writtenAfterHandOff, leaked
vars == <<warm, hist, fields, handed, writtenAfterHandOff, leaked>>

Calls == [l : Lists, t : Totals, s : Engines, cb : Callbacks]
\* what the result of a call is a function of: the observer is NOT part of it (a callback only reads the iterates)
Args(c) == [l |-> c.l, t |-> c.t, s |-> c.s]
EngineFields == {"model", "groups", "history"}
CallerObjects == {"measurement_list", "Q_y_arrays", "zero_spec", "options_arg"}

Init == /\ warm \in WarmModes /\ hist = <<>>
        /\ fields = [f \in EngineFields |-> 0]            \* 0 = never written; k = written by call k
        /\ handed = {} /\ writtenAfterHandOff = {} /\ leaked = FALSE

\* what a call reads from the engine object
Reads(w) == IF w THEN {"model"} ELSE {}
\* estimate(): _setup builds a NEW model and NEW groups (l.312-323), the solver fills the new model only
Estimate(c) ==
  /\ Len(hist) < Depth
  /\ LET k == Len(hist) + 1
         stale == {f \in Reads(warm) : fields[f] # 0}
     IN  /\ hist' = Append(hist, [call |-> c, k |-> k, resultOf |-> Args(c), dependsOn |-> {fields[f] : f \in stale}])
         /\ leaked' = (leaked \/ (~warm /\ stale # {}))
         /\ fields' = [fields EXCEPT !["model"] = k, !["groups"] = k]
         /\ handed' = handed \cup {k}                      \* the model object of call k goes to the caller
         /\ writtenAfterHandOff' = writtenAfterHandOff      \* no write targets an object in `handed`
  /\ UNCHANGED warm

\* the caller queries an old model in bulk: fills that model's cache, answers unchanged (C02)
CalcMany(h) == /\ h \in handed /\ UNCHANGED vars

Next == (\E c \in Calls : Estimate(c)) \/ (\E h \in handed : CalcMany(h))
Spec == Init /\ [][Next]_vars

Emit == Len(hist) = Depth => PrintT(<<"EMIT", ToJson([warm |-> warm, calls |-> [i \in DOMAIN hist |-> hist[i].call]])>>)
HistoryFree == ~leaked /\ (~warm => \A i \in DOMAIN hist : hist[i].dependsOn = {})
SnapshotsStable == writtenAfterHandOff = {}
\* an observer never changes what is computed: equal arguments give equal results whatever the callback
ObserverTransparent == \A i, j \in DOMAIN hist : Args(hist[i].call) = Args(hist[j].call) => hist[i].resultOf = hist[j].resultOf
=============================================================================
