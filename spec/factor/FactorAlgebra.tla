--------------------------- MODULE FactorAlgebra ---------------------------
(* Factor algebra addressed by attribute NAME (src/mbi/factor.py,           *)
(* clique_vector.py).  A factor's LAYOUT is a sequence of distinct          *)
(* attribute names; its cells are the assignments of those attributes,      *)
(* numbered row-major.  For every operation the spec states                 *)
(*   - the layout of the result (the order the implementation must return), *)
(*   - for every result cell, WHICH operand cells meet there                *)
(*     (the addressing map; the scalar function applied to them is the      *)
(*      operation's name and is evaluated by the driver).                   *)
(* TLC's state graph is one implementation test per transition (C14).       *)
EXTENDS Tables, TLC, Json

CONSTANTS Univ,      \* attribute names
          Sz,        \* [Univ -> sizes], sizes incl. 1
          Ops        \* operations to enumerate

VARIABLES fa, ga, last
vars == <<fa, ga, last>>

\* all sequences of distinct attributes
RECURSIVE Perms(_)
Perms(A) == IF A = {} THEN {<<>>} ELSE UNION {{<<a>> \o p : p \in Perms(A \ {a})} : a \in A}
Layouts == UNION {Perms(A) : A \in SUBSET Univ}

RECURSIVE SizeSeq(_)
SizeSeq(s) == IF s = <<>> THEN 1 ELSE Sz[Head(s)] * SizeSeq(Tail(s))
\* 1-based row-major index of assignment x (defined at least on the attributes of layout s)
RECURSIVE Idx0(_, _)
Idx0(s, x) == IF s = <<>> THEN 0 ELSE x[Head(s)] * SizeSeq(Tail(s)) + Idx0(Tail(s), x)
Idx(s, x) == Idx0(s, x) + 1
Cells(s) == AsgSeq(s, Sz)

Without(s, A) == SelectSeq(s, LAMBDA a : a \notin A)
MergeLayout(s, t) == s \o Without(t, SeqRange(s))          \* Domain.merge (domain.py:57-70)

\* ---- results: [out |-> layout, map |-> <<contributions per result cell>>]
\* elementwise binary operation by name: result cell x meets f at x|f and g at x|g
Binary(f, g) ==
  LET o == MergeLayout(f, g) c == Cells(o)
  IN  [out |-> o, map |-> [i \in DOMAIN c |-> <<Idx(f, c[i]), Idx(g, c[i])>>]]
\* operations that keep self's layout and read other at the restriction (/, +=, *=); need g inside f
Into(f, g) ==
  LET c == Cells(f) IN [out |-> f, map |-> [i \in DOMAIN c |-> <<i, Idx(g, c[i])>>]]
\* aggregation over the attribute set A: result keeps f's order without A
Aggregate(f, A) ==
  LET o == Without(f, A) c == Cells(o) cf == Cells(f)
  IN  [out |-> o, map |-> [i \in DOMAIN c |-> SelectSeq([j \in DOMAIN cf |-> j],
                                              LAMBDA j : Restr(cf[j], SeqRange(o)) = c[i])]]
\* relayout: same cells, attribute order t (transpose / the second half of project)
Relayout(f, t) ==
  LET c == Cells(t) IN [out |-> t, map |-> [i \in DOMAIN c |-> <<Idx(f, c[i])>>]]
\* project onto the sequence t: aggregate the others, return in the REQUESTED order
Project(f, t) ==
  LET ag == Aggregate(f, SeqRange(f) \ SeqRange(t)) c == Cells(t)
  IN  [out |-> t, map |-> [i \in DOMAIN c |-> ag.map[Idx(ag.out, c[i])]]]
\* condition on evidence ev (a function from some attributes of f to values)
Condition(f, ev) ==
  LET o == Without(f, DOMAIN ev) c == Cells(o)
  IN  [out |-> o, map |-> [i \in DOMAIN c |-> <<Idx(f, c[i] @@ ev)>>]]
\* expand to the layout d (superset of f)
Expand(f, d) ==
  LET c == Cells(d) IN [out |-> d, map |-> [i \in DOMAIN c |-> <<Idx(f, c[i])>>]]
Same(f) == LET c == Cells(f) IN [out |-> f, map |-> [i \in DOMAIN c |-> <<i>>]]

Evidences(f) == UNION {{e \in [A -> 0..2] : \A a \in A : e[a] < Sz[a]} : A \in (SUBSET SeqRange(f)) \ {{}}}
OrdSubs(f) == UNION {Perms(A) : A \in SUBSET SeqRange(f)}

\* the argument space and the result of each operation
Args(o) ==
  CASE o \in {"add", "sub", "mul", "logaddexp"} -> {<<>>}
    [] o \in {"div", "iadd", "imul"} -> IF SeqRange(ga) \subseteq SeqRange(fa) THEN {<<>>} ELSE {}
    [] o \in {"sum", "logsumexp", "max"} -> OrdSubs(fa)
    [] o \in {"project_sum", "project_logsumexp"} -> OrdSubs(fa)
    [] o = "transpose" -> Perms(SeqRange(fa))
    [] o = "condition" -> Evidences(fa)
    [] o = "expand" -> {d \in Layouts : SeqRange(fa) \subseteq SeqRange(d)}
    [] o \in {"exp", "log", "copy", "scalar", "sum_all", "copy_out", "exp_out"} -> {<<>>}

Result(o, arg) ==
  CASE o \in {"add", "sub", "mul", "logaddexp"} -> Binary(fa, ga)
    [] o \in {"div", "iadd", "imul"} -> Into(fa, ga)
    [] o \in {"sum", "logsumexp", "max"} -> Aggregate(fa, SeqRange(arg))
    [] o \in {"project_sum", "project_logsumexp"} -> Project(fa, arg)
    [] o = "transpose" -> Relayout(fa, arg)
    [] o = "condition" -> Condition(fa, arg)
    [] o = "expand" -> Expand(fa, arg)
    [] o \in {"exp", "log", "copy", "scalar", "copy_out", "exp_out"} -> Same(fa)
    [] o = "sum_all" -> Aggregate(fa, SeqRange(fa))

ArgJson(o, arg) == IF o = "condition" THEN [keys |-> SetToSeq(DOMAIN arg), vals |-> [i \in 1..Cardinality(DOMAIN arg) |-> arg[SetToSeq(DOMAIN arg)[i]]]]
                   ELSE [seq |-> arg]

Init == fa \in Layouts /\ ga \in Layouts /\ last = [op |-> "none"]

Do(o, arg) ==
  /\ last' = [op |-> o, arg |-> arg, res |-> Result(o, arg)]
  /\ PrintT(<<"EMIT", ToJson([op |-> o, f |-> fa, g |-> ga, arg |-> ArgJson(o, arg), out |-> last'.res.out, map |-> last'.res.map])>>)
  /\ UNCHANGED <<fa, ga>>

Next == last.op = "none" /\ \E o \in Ops : \E arg \in Args(o) : Do(o, arg)
Spec == Init /\ [][Next]_vars

-----------------------------------------------------------------------------
\* sanity laws of the addressing maps, checked by TLC on every transition
Done == last.op # "none"
R == last.res
Flatten(m) == UNION {SeqRange(m[i]) : i \in DOMAIN m}
\* the result has exactly one cell per assignment of its layout, and no repeated attribute
LayoutOK == Done => /\ Len(R.map) = SizeSeq(R.out)
                    /\ Cardinality(SeqRange(R.out)) = Len(R.out)
\* binary results list self's attributes first, then the new ones of other (merged-domain order)
MergeOrderOK == (Done /\ last.op \in {"add", "sub", "mul", "logaddexp"}) =>
                  /\ SubSeq(R.out, 1, Len(fa)) = fa
                  /\ SeqRange(R.out) = SeqRange(fa) \cup SeqRange(ga)
\* aggregation partitions the operand's cells: each is counted exactly once
PartitionOK == (Done /\ last.op \in {"sum", "logsumexp", "max", "project_sum", "project_logsumexp", "sum_all"}) =>
                  /\ Flatten(R.map) = 1..SizeSeq(fa)
                  /\ \A i, j \in DOMAIN R.map : i # j => SeqRange(R.map[i]) \cap SeqRange(R.map[j]) = {}
\* projection returns its axes in the order requested
RequestedOrderOK == (Done /\ last.op \in {"project_sum", "project_logsumexp", "transpose", "expand"}) => R.out = last.arg
\* relayouts are bijections on cells
BijectionOK == (Done /\ last.op = "transpose") =>
                  {R.map[i][1] : i \in DOMAIN R.map} = 1..SizeSeq(fa)
=============================================================================
