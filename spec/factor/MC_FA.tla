------------------------------- MODULE MC_FA -------------------------------
EXTENDS FactorAlgebra
MCSz == [a \in Univ |-> IF a = "a" THEN 2 ELSE IF a = "b" THEN 3 ELSE IF a = "c" THEN 1 ELSE 2]
MCOps == {"add", "sub", "mul", "logaddexp", "div", "iadd", "imul", "sum", "logsumexp", "max", "project_sum",
          "project_logsumexp", "transpose", "condition", "expand", "exp", "log", "copy", "scalar", "sum_all",
          "copy_out", "exp_out"}
=============================================================================
