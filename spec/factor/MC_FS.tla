------------------------------- MODULE MC_FS -------------------------------
EXTENDS FactorStore
MCSz == [a \in Univ |-> IF a = "a" THEN 2 ELSE IF a = "b" THEN 3 ELSE IF a = "c" THEN 1 ELSE 2]
RECURSIVE Perms(_)
Perms(A) == IF A = {} THEN {<<>>} ELSE UNION {{<<a>> \o p : p \in Perms(A \ {a})} : a \in A}
Layouts == UNION {Perms(A) : A \in SUBSET Univ}
MCPairs == {p \in Layouts \X Layouts : SeqRange(p[2]) \subseteq SeqRange(p[1]) \/ SeqRange(p[1]) \subseteq SeqRange(p[2])}
=============================================================================
