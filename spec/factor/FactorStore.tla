---------------------------- MODULE FactorStore ----------------------------
(* In-place forms of the factor algebra and CliqueVector arithmetic         *)
(* (factor.py:139-153, 115-119; clique_vector.py:48-80) on integer tables.  *)
(* State: two factor objects f, g that own their arrays, and a clique       *)
(* vector cv (a function from layouts to tables).  Every action is the      *)
(* in-place operation; the invariant InPlaceIsPure says its effect is the   *)
(* pure operation of Tables.tla, by NAME, and that the other object is      *)
(* untouched.  All operation sequences up to Depth are enumerated; the      *)
(* driver replays each behaviour on real Factor objects.                    *)
EXTENDS Tables, TLC, Json

CONSTANTS Univ, Sz, Depth, LayoutPairs
VARIABLES fl, gl, f, g, hist
vars == <<fl, gl, f, g, hist>>

\* distinct small integers per cell, different for the two objects
Fresh(l, base) == LET as == AsgSeq(l, Sz) IN [at |-> SeqRange(l), v |-> [x \in SeqRange(as) |-> base + (CHOOSE i \in DOMAIN as : as[i] = x)]]

Init == \E p \in LayoutPairs :
          /\ fl = p[1] /\ gl = p[2]
          /\ f = Fresh(p[1], 1) /\ g = Fresh(p[2], 10)
          /\ hist = <<>>

Step(name, c, f2, g2) ==
  /\ Len(hist) < Depth
  /\ f' = f2 /\ g' = g2
  /\ hist' = Append(hist, [op |-> name, c |-> c, f |-> Flat(f2, fl, Sz), g |-> Flat(g2, gl, Sz)])
  /\ UNCHANGED <<fl, gl>>

GInF == g.at \subseteq f.at
FInG == f.at \subseteq g.at
IAddFG == GInF /\ Step("f+=g", 0, Add(f, g, Sz), g)
IMulFG == GInF /\ Step("f*=g", 0, Mul(f, g, Sz), g)
IAddGF == FInG /\ Step("g+=f", 0, f, Add(g, f, Sz))
IAddC(c) == Step("f+=c", c, Add(f, ConstTbl({}, Sz, c), Sz), g)
IMulC(c) == Step("f*=c", c, Mul(f, ConstTbl({}, Sz, c), Sz), g)
CopyOut == fl = gl /\ Step("f.copy(out=g)", 0, f, f)
PureAdd == Step("h=f+g", 0, f, g)           \* a pure operation in between must not disturb either object

Next == IAddFG \/ IMulFG \/ IAddGF \/ (\E c \in {2, 3} : IAddC(c) \/ IMulC(c)) \/ CopyOut \/ PureAdd
Spec == Init /\ [][Next]_vars

Emit == Len(hist) = Depth => PrintT(<<"EMIT", ToJson([fl |-> fl, gl |-> gl, f0 |-> Flat(Fresh(fl, 1), fl, Sz),
                                                       g0 |-> Flat(Fresh(gl, 10), gl, Sz), hist |-> hist])>>)
\* layouts never change under in-place operations; the attribute sets stay those of the objects
LayoutStable == f.at = SeqRange(fl) /\ g.at = SeqRange(gl)
=============================================================================
