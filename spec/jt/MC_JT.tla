------------------------------- MODULE MC_JT -------------------------------
EXTENDS JunctionTree
\* all clique collections = all graphs on V (each edge a 2-clique), plus hyper-clique catalogue
AllGraphs == {g \cup {{a} : a \in {}} : g \in SUBSET Pairs(V)}
Sz2 == {[a \in V |-> 2]}
SzMixed == [V -> {1, 2, 3}]
HyperCatalogue == { c \in SUBSET ((SUBSET V) \ {{}}) : Cardinality(c) <= 2 /\ \E x \in c : Cardinality(x) >= 3 }
=============================================================================
