--------------------------- MODULE JunctionTree ---------------------------
(* Construction of the junction tree and its message schedule               *)
(* (src/mbi/junction_tree.py).  One action per statement block:             *)
(*   Eliminate   l.49-56 (_triangulated loop) + l.63-102 (_greedy_order)    *)
(*   FindCliques l.57-59, 116                                               *)
(*   PickTree    l.117-123 (any maximum-separator-weight spanning tree;     *)
(*               which one networkx returns is a refinement)                *)
(*   Send        l.23-34 (mp_order: any topological order of the message    *)
(*               dependency graph) - reused by bp/BeliefProp.tla            *)
(* Property C12: the tree is a valid junction tree, the schedule is valid.  *)
EXTENDS Graphs, Tables, TLC, Json

CONSTANTS V,          \* attribute names of the domain
          ClSets,     \* set of clique collections to explore (each a set of subsets of V)
          SizeFns,    \* set of size functions [V -> Nat \ {0}]
          Mode,       \* "any" (every elimination order) or "greedy" (cost-minimal choices only)
          EmitTrees   \* TRUE: print one EMIT line per (structure, order, tree)

VARIABLES cl, sz, alive, E, fill, hc, elim, pc, maxcl, tree, sent
vars == <<cl, sz, alive, E, fill, hc, elim, pc, maxcl, tree, sent>>

InitWith(c, s) ==
  /\ cl = c /\ sz = s
  /\ alive = V
  /\ E = MoralEdges(c)              \* _make_graph l.42-47
  /\ fill = {}
  /\ hc = c                         \* _greedy_order's hyper-clique bookkeeping l.67
  /\ elim = <<>>
  /\ pc = "elim"
  /\ maxcl = {} /\ tree = {} /\ sent = {}

Init == \E c \in ClSets, s \in SizeFns : InitWith(c, s)

\* cost of eliminating a in the greedy bookkeeping (l.71-79)
HCVars(h, a) == UNION {c \in h : a \in c}
Cost(h, s, a) == SizeOf(HCVars(h, a), s)
CostMinimal(a) == \A b \in alive : Cost(hc, sz, a) <= Cost(hc, sz, b)

Eliminate(a) ==
  /\ pc = "elim" /\ a \in alive
  /\ Mode = "greedy" => CostMinimal(a)
  /\ LET nb == {m \in alive : {a, m} \in E} \ {a}
         new == Pairs(nb)
         nbh == {c \in hc : a \in c}
     IN  /\ fill' = fill \cup new
         /\ E' = E \cup new
         /\ hc' = (hc \ nbh) \cup {UNION nbh \ {a}}        \* l.96-99
  /\ alive' = alive \ {a}
  /\ elim' = Append(elim, a)
  /\ pc' = IF alive' = {} THEN "cliques" ELSE "elim"
  /\ UNCHANGED <<cl, sz, maxcl, tree, sent>>

Tri == MoralEdges(cl) \cup fill

FindCliques ==
  /\ pc = "cliques"
  /\ maxcl' = MaxCliques(V, Tri)
  /\ pc' = "tree"
  /\ UNCHANGED <<cl, sz, alive, E, fill, hc, elim, tree, sent>>

EmitRec(T) == [cliques |-> cl, sz |-> sz, elim |-> elim, maxcl |-> maxcl, tree |-> T]

SetTree(T) ==
  /\ pc = "tree"
  /\ IsSpanningTree(maxcl, T)
  /\ tree' = T
  /\ pc' = "send"
  /\ UNCHANGED <<cl, sz, alive, E, fill, hc, elim, maxcl, sent>>

PickTree(T) ==
  /\ T \in MaxWeightTrees(maxcl)
  /\ SetTree(T)
  /\ EmitTrees => PrintT(<<"EMIT", ToJson(EmitRec(T))>>)

TreeNbrs(T, i) == {j \in UNION T : {i, j} \in T} \ {i}
AllDir(T) == {<<i, j>> \in (UNION T) \X (UNION T) : {i, j} \in T /\ i # j}
Ready(T, s, i, j) == /\ {i, j} \in T /\ i # j
                     /\ <<i, j>> \notin s
                     /\ \A k \in TreeNbrs(T, i) \ {j} : <<k, i>> \in s

Send(i, j) ==
  /\ pc = "send"
  /\ Ready(tree, sent, i, j)
  /\ sent' = sent \cup {<<i, j>>}
  /\ UNCHANGED <<cl, sz, alive, E, fill, hc, elim, pc, maxcl, tree>>

Next == \/ \E a \in V : Eliminate(a)
        \/ FindCliques
        \/ \E T \in SUBSET Pairs(maxcl) : PickTree(T)
        \/ \E i, j \in maxcl : Send(i, j)

Spec == Init /\ [][Next]_vars

-----------------------------------------------------------------------------
\* C12 invariants
Built == pc = "send"

\* validity of a tree T over node set N for input cliques c (used by the trace spec too)
JTValid(c, N, T) ==
  /\ \A x \in c : \E n \in N : x \subseteq n
  /\ UNION N = V
  /\ \A x, y \in N : x \subseteq y => x = y
  /\ IsSpanningTree(N, T)
  /\ RIP(N, T)

Covers == Built => \A c \in cl : \E n \in maxcl : c \subseteq n
AllAttrs == Built => UNION maxcl = V
Antichain == Built => \A c, d \in maxcl : c \subseteq d => c = d
IsTree == Built => IsSpanningTree(maxcl, tree)
RunningIntersection == Built => RIP(maxcl, tree)
\* the greedy bookkeeping and the elimination graph describe the same neighbourhoods
HCAgree == pc = "elim" => \A a \in alive :
             HCVars(hc, a) \ {a} = ({m \in alive : {a, m} \in E} \ {a})
\* the schedule can always be completed: some message is ready until all are sent
Progress == Built => (sent = AllDir(tree) \/ \E i, j \in maxcl : Ready(tree, sent, i, j))
\* a message is only ever sent after everything it depends on
DepRespect == [][\A i, j \in maxcl : (<<i, j>> \in sent' \ sent) =>
                   \A k \in TreeNbrs(tree, i) \ {j} : <<k, i>> \in sent]_vars
SentOnce == Built => sent \subseteq AllDir(tree)
=============================================================================
