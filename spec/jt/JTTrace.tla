------------------------------ MODULE JTTrace ------------------------------
(* Validates junction trees recorded from the real JunctionTree objects     *)
(* against JunctionTree.tla: the logged elimination order is replayed       *)
(* through Eliminate (cost-minimality required when the code claims greedy  *)
(* mode), maximal cliques are recomputed, the logged tree must be a valid   *)
(* junction tree on exactly those nodes, and mp_order() is consumed as Send *)
(* events (dependency rule, no duplicates), ending with all messages sent.  *)
EXTENDS JunctionTree, TraceLib

CONSTANT Strict    \* TRUE: the run must be a behaviour of the whole model (the reported elimination order reproduces the
                   \* nodes, greedy choices are cost-minimal); FALSE: only the clauses that restate C12 (valid tree, valid schedule)

VARIABLES tid, l
tvars == <<vars, tid, l>>

T == Traces[tid]
Ev == T.events[l]
SetOfSets(ss) == {ToSet(s) : s \in ToSet(ss)}

TraceInit ==
  /\ tid \in 1..NTraces
  /\ l = 1
  /\ InitWith(SetOfSets(Traces[tid].cliques), Traces[tid].sz)

IsEv(n) == /\ l <= Len(T.events) /\ Ev.e = n /\ l' = l + 1 /\ UNCHANGED tid

TrEliminate == /\ Strict /\ IsEv("Eliminate")
               /\ T.mode = "greedy" => CostMinimal(Ev.a)
               /\ Eliminate(Ev.a)
TrSkipElim == ~Strict /\ IsEv("Eliminate") /\ UNCHANGED vars

TrCliques == Strict /\ FindCliques /\ UNCHANGED <<tid, l>>      \* internal step, not logged

TrTreeL == /\ ~Strict /\ IsEv("Tree")
           /\ LET N == SetOfSets(Ev.nodes)
                  TE == {{ToSet(e[1]), ToSet(e[2])} : e \in ToSet(Ev.edges)}
              IN  /\ JTValid(cl, N, TE)
                  /\ maxcl' = N /\ tree' = TE /\ pc' = "send"
                  /\ UNCHANGED <<cl, sz, alive, E, fill, hc, elim, sent>>
TrTree == /\ Strict /\ IsEv("Tree")
          /\ LET N == SetOfSets(Ev.nodes)
                 TE == {{ToSet(e[1]), ToSet(e[2])} : e \in ToSet(Ev.edges)}
             IN  /\ N = maxcl
                 /\ JTValid(cl, N, TE)
                 /\ SetTree(TE)

TrSend == IsEv("Send") /\ Send(ToSet(Ev.i), ToSet(Ev.j))

TrDone == IsEv("Done") /\ pc = "send" /\ sent = AllDir(tree) /\ UNCHANGED vars

TraceNext == TrEliminate \/ TrSkipElim \/ TrCliques \/ TrTree \/ TrTreeL \/ TrSend \/ TrDone
TraceSpec == TraceInit /\ [][TraceNext]_tvars

Marker == Mark(tid, l)
ASSUME InitMarks
Post == PrintVerdicts
=============================================================================
