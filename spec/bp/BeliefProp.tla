---------------------------- MODULE BeliefProp ----------------------------
(* Exact inference by message passing on a junction tree                    *)
(* (src/mbi/graphical_model.py:148-176, clique_vector.py:48-57).            *)
(* Integer sum-product semiring (DESIGN 1.1): a table of non-negative       *)
(* integers w stands for the log-potential ln w; product = Factor.__add__,  *)
(* Marg = logsumexp, Div0 = Factor.__sub__ with its -inf -> 0 rule.         *)
(*   Absorb  CliqueVector.combine: input potential k is multiplied into one *)
(*           maximal clique that contains it (done in Init)                 *)
(*   Send    l.159-166, enabled by the dependency rule only, so TLC visits  *)
(*           EVERY linear extension of the message order                    *)
(* Property C01: after all messages, every clique belief is the brute-force *)
(* marginal of the product of the INPUT potentials (times the total / Z).   *)
EXTENDS Graphs, Tables, TLC, Json

CONSTANTS Structs,    \* sequence of [V, sz, ord, pots, trees, zsets]
          EmitRuns    \* print one EMIT line per completed schedule

VARIABLES sid, zs, N, tree, joint, psi0, belief, msg, sent, masked, divok, hist, fin
vars == <<sid, zs, N, tree, joint, psi0, belief, msg, sent, masked, divok, hist, fin>>

S == Structs[sid]
CanonSeq(A, ord) == SelectSeq(ord, LAMBDA a : a \in A)

PotTbl(s, z, k) ==
  LET P == Structs[s].pots[k]
  IN  FromFlat(P.at, Structs[s].sz, [idx \in 1..Len(P.w) |-> IF <<k, idx>> \in z THEN 0 ELSE P.w[idx]])

RECURSIVE MulSet(_, _, _)
MulSet(f, D, sz) == IF D = {} THEN One(sz)
                    ELSE LET x == CHOOSE x \in D : TRUE IN Mul(f[x], MulSet(f, D \ {x}, sz), sz)

\* the clique a potential is absorbed into: observed from the implementation (tr.home) or any containing clique
Home(s, tr, k) == IF tr.home # <<>> THEN tr.home[k]
                  ELSE CHOOSE n \in tr.N : SeqRange(Structs[s].pots[k].at) \subseteq n

Init ==
  \E s \in 1..Len(Structs) : \E tr \in Structs[s].trees : \E z \in Structs[s].zsets :
    LET sz == Structs[s].sz
        K == 1..Len(Structs[s].pots)
        pt == [k \in K |-> PotTbl(s, z, k)]
        j == Mul(MulSet(pt, K, sz), ConstTbl(Structs[s].V, sz, 1), sz)
    IN  /\ sid = s /\ zs = z /\ N = tr.N /\ tree = tr.T
        /\ joint = j
        /\ Total(j) > 0                           \* an all-zero joint is outside the property
        /\ psi0 = [n \in tr.N |-> Mul(ConstTbl(n, sz, 1), MulSet(pt, {k \in K : Home(s, tr, k) = n}, sz), sz)]
        /\ belief = psi0
        /\ msg = <<>> /\ sent = {} /\ masked = {} /\ divok = TRUE /\ hist = <<>> /\ fin = FALSE

TreeNbrs(T, i) == {j \in UNION T : {i, j} \in T} \ {i}
AllDir(T) == {<<i, j>> \in (UNION T) \X (UNION T) : {i, j} \in T /\ i # j}
Ready(T, s, i, j) == /\ {i, j} \in T /\ i # j
                     /\ <<i, j>> \notin s
                     /\ \A k \in TreeNbrs(T, i) \ {j} : <<k, i>> \in s

Send(i, j) ==
  /\ Ready(tree, sent, i, j)
  /\ LET sz == S.sz
         rev == <<j, i>> \in sent
         tau == IF rev THEN Div0(belief[i], msg[<<j, i>>], sz) ELSE belief[i]     \* l.161-164
         m == Marg(tau, i \cap j, sz)                                              \* l.165
     IN  /\ msg' = (<<i, j>> :> m) @@ msg
         /\ belief' = [belief EXCEPT ![j] = Mul(belief[j], m, sz)]                 \* l.166
         /\ divok' = (divok /\ (rev => DivExact(belief[i], msg[<<j, i>>])))
         /\ masked' = IF rev THEN masked \cup {<<i, j>>} ELSE masked
         /\ hist' = Append(hist, [i |-> i, j |-> j, at |-> CanonSeq(i \cap j, S.ord),
                                  m |-> Flat(m, CanonSeq(i \cap j, S.ord), sz)])
  /\ sent' = sent \cup {<<i, j>>}
  /\ UNCHANGED <<sid, zs, N, tree, joint, psi0, fin>>

Done == sent = AllDir(tree)

EmitRec == [sid |-> sid, zs |-> zs, nodes |-> N, tree |-> tree, hist |-> hist, Z |-> Total(joint),
            beliefs |-> {[n |-> n, at |-> CanonSeq(n, S.ord), w |-> Flat(belief[n], CanonSeq(n, S.ord), S.sz)] : n \in N}]

Finish == /\ Done /\ EmitRuns /\ ~fin
          /\ PrintT(<<"EMIT", ToJson(EmitRec)>>)
          /\ fin' = TRUE
          /\ UNCHANGED <<sid, zs, N, tree, joint, psi0, belief, msg, sent, masked, divok, hist>>

Next == (\E i, j \in N : Send(i, j)) \/ Finish
Spec == Init /\ [][Next]_vars

-----------------------------------------------------------------------------
BruteMarg(c) == Marg(joint, c, S.sz)

\* C01: exactness, for every tree, schedule and zero pattern
Exact == Done => \A c \in N : belief[c] = BruteMarg(c)
SameZ == Done => \A c \in N : Total(belief[c]) = Total(joint)
\* nothing lost, nothing counted twice when potentials are absorbed into maximal cliques
AbsorbOK == Mul(MulSet(psi0, N, S.sz), ConstTbl(S.V, S.sz, 1), S.sz) = joint
\* the -inf-aware subtraction only ever divides exactly (or 0/0): it cannot manufacture NaN
DivOK == divok

Side(i, j) == Reach({i}, N, tree \ {{i, j}})
Textbook(i, j) == Marg(MulSet(psi0, Side(i, j), S.sz), i \cap j, S.sz)
\* a message is the marginal of everything on its sender's side; a message sent after its
\* reverse is that marginal restricted to the support of the reverse message (0/0 := 0)
MsgMeaning ==
  \A e \in sent :
    LET i == e[1] j == e[2] tb == Textbook(i, j)
    IN  IF e \in masked
        THEN msg[e] = [at |-> tb.at, v |-> [f \in DOMAIN tb.v |-> IF msg[<<j, i>>].v[f] = 0 THEN 0 ELSE tb.v[f]]]
        ELSE msg[e] = tb
BeliefMeaning ==
  \A n \in N : belief[n] = Mul(psi0[n], MulSet(msg, {e \in sent : e[2] = n}, S.sz), S.sz)
=============================================================================
