------------------------------ MODULE BPTrace ------------------------------
(* Validates belief-propagation runs recorded from the real code (hook H1)  *)
(* against BeliefProp.tla: every logged Send must be enabled by the         *)
(* dependency rule and carry exactly the integer message the spec computes  *)
(* from the logged input potentials; after the last message the logged      *)
(* clique marginals (as integers, unnormalised) must equal the brute-force  *)
(* marginals.                                                               *)
EXTENDS BeliefProp, TraceLib

CONSTANT Strict    \* TRUE: every logged message must be the model's message; FALSE: only the schedule rule and the final marginals (C01)

VARIABLES tid, l
tvars == <<vars, tid, l>>

SetOfSets(ss) == {ToSet(x) : x \in ToSet(ss)}

TraceStructs ==
  [t \in 1..NTraces |->
     LET R == Traces[t]
     IN  [V |-> ToSet(R.ord), sz |-> R.sz, ord |-> R.ord, pots |-> R.pots,
          trees |-> {[N |-> SetOfSets(R.nodes),
                      T |-> {{ToSet(e[1]), ToSet(e[2])} : e \in ToSet(R.tree)},
                      home |-> [k \in 1..Len(R.home) |-> ToSet(R.home[k])]]},
          zsets |-> {{}}]]

TraceInit == Init /\ tid = sid /\ l = 1

Ev == Traces[tid].events[l]
IsEv(n) == /\ l <= Len(Traces[tid].events) /\ Ev.e = n /\ l' = l + 1 /\ UNCHANGED tid

TrSend == /\ IsEv("Send")
          /\ Send(ToSet(Ev.i), ToSet(Ev.j))
          /\ Strict => (/\ Ev.exact                  \* the logged message was integral
                        /\ Flat(msg'[<<ToSet(Ev.i), ToSet(Ev.j)>>], Ev.at, S.sz) = Ev.m
                        /\ divok')

TrDone == /\ IsEv("Done") /\ Done
          /\ \A k \in 1..Len(Ev.beliefs) :
               LET B == Ev.beliefs[k]
               IN  /\ B.exact
                   /\ Flat(BruteMarg(ToSet(B.at)), B.at, S.sz) = B.w
          /\ UNCHANGED vars

TraceNext == TrSend \/ TrDone
TraceSpec == TraceInit /\ [][TraceNext]_tvars
Marker == Mark(tid, l)
ASSUME InitMarks
Post == PrintVerdicts
=============================================================================
