---------------------------- MODULE SynthTrace ----------------------------
(* Validates synthetic_data runs recorded through hook H3 against           *)
(* Synthetic.tla: each Column event must name exactly the conditioning set  *)
(* the spec derives from the junction tree; each Group event carries the    *)
(* weights the code conditioned on (must be the joint's marginal at that    *)
(* group, integers) and the histogram it produced (must be an apportionment *)
(* of the group's rows in round mode, and supported on the positive cells   *)
(* in sample mode).                                                         *)
EXTENDS Synthetic, TraceLib

CONSTANT Strict    \* TRUE: conditioning sets and weights must be the model's; FALSE: only "each group's histogram is an
                   \* apportionment of the weights the code itself conditioned on" (rounding error below one per cell)
VARIABLES tid, l
tvars == <<vars, tid, l>>
T == Traces[tid]
Ev == T.events[l]
IsEv(n) == l <= Len(T.events) /\ Ev.e = n /\ l' = l + 1 /\ UNCHANGED tid

TraceStructs == [t \in 1..NTraces |->
   [V |-> ToSet(Traces[t].ord), sz |-> Traces[t].sz, ord |-> Traces[t].ord, pots |-> Traces[t].pots,
    cl |-> {ToSet(c) : c \in ToSet(Traces[t].cliques)}, orders |-> {Traces[t].order}]]

TraceInit == /\ tid \in 1..NTraces /\ l = 1 /\ InitWith(tid, Traces[tid].order)

TrColumn == /\ Strict /\ IsEv("Column")
            /\ NextColumn
            /\ col' = Ev.col /\ proj' = ToSet(Ev.proj)
GroupWeights(g) ==
  LET pseq == Ev.proj cseq == Ev.proj \o <<Ev.col>>
      m == Marg(joint, ToSet(cseq), S.sz)
      gasg == [i \in 1..Len(pseq) |-> g[i]]
  IN  [v \in 1..S.sz[Ev.col] |-> m.v[[a \in ToSet(cseq) |-> IF a = Ev.col THEN v - 1
                                                           ELSE g[CHOOSE i \in 1..Len(pseq) : pseq[i] = a]]]]
TrGroup == /\ Strict /\ IsEv("Group") /\ Ev.col = col /\ ToSet(Ev.proj) = proj
           /\ Ev.exact
           /\ Ev.w = GroupWeights(Ev.g)
           /\ IF T.method = "round" THEN ApportionOK(Ev.w, Ev.n, Ev.out) ELSE SampleOK(Ev.w, Ev.n, Ev.out)
           /\ UNCHANGED vars
TrDone == Strict /\ IsEv("Done") /\ k = Len(order) + 1 /\ UNCHANGED vars
LColumn == ~Strict /\ IsEv("Column") /\ UNCHANGED vars
LGroup == /\ ~Strict /\ IsEv("Group")
          /\ Ev.exact => (IF T.method = "round" THEN ApportionNear(Ev.w, Ev.n, Ev.out) ELSE SampleOK(Ev.w, Ev.n, Ev.out))
          /\ UNCHANGED vars
LDone == ~Strict /\ IsEv("Done") /\ UNCHANGED vars
TraceNext == TrColumn \/ TrGroup \/ TrDone \/ LColumn \/ LGroup \/ LDone
TraceSpec == TraceInit /\ [][TraceNext]_tvars
Marker == Mark(tid, l)
ASSUME InitMarks
Post == PrintVerdicts
=============================================================================
