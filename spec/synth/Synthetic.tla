----------------------------- MODULE Synthetic -----------------------------
(* Column-by-column generation of synthetic records                         *)
(* (src/mbi/graphical_model.py:207-251).  Columns are generated in REVERSE  *)
(* elimination order; column col is drawn conditionally on                  *)
(*     proj = used \cap UNION {maximal cliques containing col}   (l.233-238)*)
(* C11 needs this to be faithful: P(col | all used columns) must equal      *)
(* P(col | proj).  TLC checks, for every structure and every elimination    *)
(* order, (a) Separation: proj separates col from the other used columns in *)
(* the triangulated graph, and (b) CondFaithful: the corresponding identity *)
(* of marginals of the joint, in the integer semiring.                      *)
(* Apportion (l.216-225, "round" mode): floor, then +1 on `extra` distinct  *)
(* cells with a fractional part.                                            *)
EXTENDS Graphs, Tables, TLC, Json

CONSTANTS Structs,      \* sequence of [V, sz, ord, pots, cl (input cliques as sets)]
          Orders        \* "all" or "given": per structure st.orders (set of sequences)

VARIABLES sid, order, maxcl, joint, used, k, col, proj
vars == <<sid, order, maxcl, joint, used, k, col, proj>>
S == Structs[sid]

RECURSIVE Perms(_)
Perms(A) == IF A = {} THEN {<<>>} ELSE UNION {{<<a>> \o p : p \in Perms(A \ {a})} : a \in A}
RECURSIVE MulSeq(_, _)
MulSeq(ts, sz) == IF ts = <<>> THEN One(sz) ELSE Mul(Head(ts), MulSeq(Tail(ts), sz), sz)
JointOf(st) == Mul(MulSeq([i \in DOMAIN st.pots |-> FromFlat(st.pots[i].at, st.sz, st.pots[i].w)], st.sz),
                   ConstTbl(st.V, st.sz, 1), st.sz)
Tri(st, o) == MoralEdges(st.cl) \cup FillIn(MoralEdges(st.cl), st.V, o)
Rev(s) == [i \in DOMAIN s |-> s[Len(s) + 1 - i]]

InitWith(s, o) ==
  /\ sid = s /\ order = o
  /\ maxcl = MaxCliques(Structs[s].V, Tri(Structs[s], o))
  /\ joint = JointOf(Structs[s])
  /\ used = {} /\ k = 1 /\ col = "" /\ proj = {}

Init == \E s \in DOMAIN Structs :
          \E o \in (IF Orders = "all" THEN Perms(Structs[s].V) ELSE Structs[s].orders) : InitWith(s, o)

CondSet(c, u) == u \cap UNION {m \in maxcl : c \in m}          \* l.233-235
NextColumn ==
  /\ k <= Len(order)
  /\ LET c == Rev(order)[k] IN
       /\ col' = c /\ proj' = CondSet(c, used) /\ used' = used \cup {c}
  /\ k' = k + 1
  /\ UNCHANGED <<sid, order, maxcl, joint>>
Next == NextColumn
Spec == Init /\ [][Next]_vars

-----------------------------------------------------------------------------
Before == used \ {col}        \* the columns generated before col
\* (a) graph separation in the triangulated graph
Separation == col # "" => Separates(S.V, Tri(S, order), proj, {col}, Before \ proj)
\* (b) P(col | Before) = P(col | proj): Marg(Before+col) * Marg(proj) = Marg(proj+col) * Marg(Before), cell by cell
CondFaithful ==
  col # "" =>
    LET A == Before \cup {col}
        lhs == Mul(Marg(joint, A, S.sz), Marg(joint, proj, S.sz), S.sz)
        rhs == Mul(Marg(joint, proj \cup {col}, S.sz), Marg(joint, Before, S.sz), S.sz)
    IN  lhs = rhs

\* Apportionment of n rows to integer-weighted cells w (exact expectation w_i * n / W)
Lo(w, n, i) == (w[i] * n) \div SumFn(w, DOMAIN w)
Hi(w, n, i) == Lo(w, n, i) + (IF (w[i] * n) % SumFn(w, DOMAIN w) = 0 THEN 0 ELSE 1)
ApportionOK(w, n, out) ==
  /\ DOMAIN out = DOMAIN w
  /\ SumFn(out, DOMAIN out) = n
  /\ \A i \in DOMAIN w : Lo(w, n, i) <= out[i] /\ out[i] <= Hi(w, n, i)        \* rounding error below 1, zero stays zero
\* what C11 itself promises for a group: a rounding error that does not grow with n. Floating point may turn an exact
\* integer expectation k into k - 1e-16 (floor k-1, fractional part ~1), so a cell may be off by one whole record.
ApportionNear(w, n, out) ==
  /\ DOMAIN out = DOMAIN w
  /\ SumFn(out, DOMAIN out) = n
  /\ \A i \in DOMAIN w : /\ Lo(w, n, i) - 1 <= out[i] /\ out[i] <= Hi(w, n, i) + 1
                         /\ w[i] = 0 => out[i] = 0
SampleOK(w, n, out) ==
  /\ DOMAIN out = DOMAIN w /\ SumFn(out, DOMAIN out) = n
  /\ \A i \in DOMAIN w : w[i] = 0 => out[i] = 0
\* every way of giving +1 to `extra` distinct fractional cells is an apportionment (design-level check of l.216-225)
ApportionDesign(w, n) ==
  LET W == SumFn(w, DOMAIN w)
      fl == [i \in DOMAIN w |-> (w[i] * n) \div W]
      fracs == {i \in DOMAIN w : (w[i] * n) % W # 0}
      extra == n - SumFn(fl, DOMAIN fl)
  IN  /\ extra >= 0 /\ extra <= Cardinality(fracs)
      /\ \A T \in {T \in SUBSET fracs : Cardinality(T) = extra} :
           ApportionOK(w, n, [i \in DOMAIN w |-> fl[i] + (IF i \in T THEN 1 ELSE 0)])
=============================================================================
