---------------------------- MODULE RegionGraph ----------------------------
(* Region-graph construction of the approximate oracles                     *)
(* (src/mbi/region_graph.py:118-248, build_graph).  Pure set comprehension  *)
(* code, transcribed one to one:                                            *)
(*   Regions      closure of the input cliques under non-empty intersection *)
(*   Edge         cover relation of strict inclusion                        *)
(*   Anc / Desc   transitive closure (of the UNPRUNED graph, as the code    *)
(*                keeps them, l.171-174)                                    *)
(*   MinParents   minimal=True pruning (l.147-164): parents of r that share *)
(*                an ancestor are merged; one representative per class is   *)
(*                kept (which one is the disjoint-set's choice)             *)
(*   Count        Moebius counting numbers c(r) = 1 - sum_{s in Anc(r)} c(s)*)
(*   N, D, B      message sets of the parent-to-child algorithm (l.193-219) *)
(*   Order        messages ordered by size of the sending region (l.244)    *)
EXTENDS Integers, FiniteSets, Sequences, TLC, Json

CONSTANTS CliqueSets        \* set of clique collections (each a set of attribute sets) to explore
VARIABLES cl, par, todo, done
vars == <<cl, par, todo, done>>

RECURSIVE Close(_)
Close(R) == LET R2 == (R \cup {x \cap y : x, y \in R}) \ {{}} IN IF R2 = R THEN R ELSE Close(R2)
Regions == Close(cl)
Sub(a, b) == a \subseteq b /\ a # b
Edge(r1, r2) == Sub(r2, r1) /\ ~\E r3 \in Regions : Sub(r2, r3) /\ Sub(r3, r1)
Children0(r) == {s \in Regions : Edge(r, s)}
Parents0(r) == {p \in Regions : Edge(p, r)}
Desc(r) == {s \in Regions : Sub(s, r)}            \* transitive closure of the cover relation of inclusion
Anc(r) == {p \in Regions : Sub(r, p)}

\* minimal=True: equivalence classes of the parents of r under "share an ancestor" (transitively)
RECURSIVE ClassOf(_, _, _)
ClassOf(r, S, u) == LET S2 == S \cup {v \in Parents0(r) : \E w \in S : Anc(w) \cap Anc(v) # {}}
                    IN  IF S2 = S THEN S ELSE ClassOf(r, S2, u)
Classes(r) == {ClassOf(r, {u}, u) : u \in Parents0(r)}
\* legal pruned parent sets of r: exactly one representative of every class
Choices(r) == {S \in SUBSET Parents0(r) : /\ \A C \in Classes(r) : Cardinality(S \cap C) = 1
                                         /\ Cardinality(S) = Cardinality(Classes(r))}
Parents(r) == par[r]
Children(p) == {r \in Regions : p \in par[r]}

RECURSIVE Count(_), SumCount(_)
Count(r) == 1 - (LET A == Anc(r) IN IF A = {} THEN 0 ELSE SumCount(A))
SumCount(S) == IF S = {} THEN 0 ELSE LET x == CHOOSE x \in S : TRUE IN Count(x) + SumCount(S \ {x})

\* l.193-219
B(r) == {<<p, r>> : p \in Parents(r)} \cup
        UNION {{<<p, d>> : p \in (Parents(d) \ {r}) \ Desc(r)} : d \in Desc(r)}
N0(p, r) == {<<s, p>> : s \in Parents(p)} \cup
            UNION {{<<s, d>> : s \in (Parents(d) \ {p}) \ Desc(p)} : d \in Desc(p)}
D0(p, r) == {<<s, r>> : s \in Parents(r) \ {p}} \cup
            UNION {{<<p1, d>> : p1 \in (Parents(d) \ {r}) \ Desc(r)} : d \in Desc(r)}
N(p, r) == N0(p, r) \ D0(p, r)
D(p, r) == D0(p, r) \ N0(p, r)
Msgs == {<<p, r>> \in Regions \X Regions : p \in Parents(r)}
\* any order that sends from smaller regions first is what sorted(regions, key=len) may produce
Before(m1, m2) == Cardinality(m1[1]) < Cardinality(m2[1])

Init == /\ cl \in CliqueSets /\ par = <<>> /\ todo = Close(cl) /\ done = FALSE
\* the disjoint-set's choice of representative, one region at a time (every combination is explored)
Pick == /\ todo # {}
        /\ LET r == CHOOSE r \in todo : TRUE IN
             \E S \in Choices(r) : par' = (r :> S) @@ par /\ todo' = todo \ {r}
        /\ UNCHANGED <<cl, done>>
Ready == todo = {}
Emit == /\ Ready /\ ~done /\ done' = TRUE
        /\ PrintT(<<"EMIT", ToJson([cliques |-> cl, regions |-> Regions,
              classes |-> {[r |-> r, classes |-> Classes(r)] : r \in Regions}, par |-> {[r |-> r, p |-> par[r]] : r \in Regions},
              counting |-> {[r |-> r, c |-> Count(r)] : r \in Regions},
              nset |-> {[m |-> m, s |-> N(m[1], m[2])] : m \in Msgs}, dset |-> {[m |-> m, s |-> D(m[1], m[2])] : m \in Msgs},
              bset |-> {[r |-> r, s |-> B(r)] : r \in Regions}])>>)
        /\ UNCHANGED <<cl, par, todo>>
Next == Pick \/ Emit
Spec == Init /\ [][Next]_vars

-----------------------------------------------------------------------------
\* every attribute is counted exactly once: the defining property of valid counting numbers
VarCount == Ready => \A a \in UNION Regions : SumCount({r \in Regions : a \in r}) = 1
\* ... and so is every region's subset lattice (Moebius): sum over r and its ancestors
RegionCount == Ready => \A s \in Regions : SumCount({s} \cup Anc(s)) = 1
\* numerator and denominator message sets are disjoint; everything referenced is a message of the pruned graph
SetsOK == Ready => \A m \in Msgs : /\ N(m[1], m[2]) \cap D(m[1], m[2]) = {}
                          /\ N(m[1], m[2]) \subseteq Msgs /\ D(m[1], m[2]) \subseteq Msgs
BeliefOK == Ready => \A r \in Regions : B(r) \subseteq Msgs
\* the update reads NEW values of its denominator messages in the same sweep (l.264): they must be sent earlier
DBeforeUse == Ready => \A m \in Msgs : \A x \in D(m[1], m[2]) : Before(x, m)
=============================================================================
