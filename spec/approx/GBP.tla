-------------------------------- MODULE GBP --------------------------------
(* Generalised belief propagation, parent-to-child form                     *)
(* (src/mbi/region_graph.py:250-284), WITHOUT damping, on integer tables up *)
(* to scale.  Damping (l.271: m <- sqrt(m * F(m)) in probability space) is  *)
(* the named deviation `Damp`: it has the same fixed points as m <- F(m).   *)
(* Scope (DESIGN fallback): clique sets with the running-intersection       *)
(* property whose region graph has two levels (cliques and separators);     *)
(* there the denominator sets D are empty and the update is division-free.  *)
(* C16: the fixed point's beliefs are the exact marginals.                  *)
EXTENDS Graphs, Tables, TLC, Json
CONSTANTS Structs, MaxSweeps
VARIABLES sid, k, msg, joint, regs
vars == <<sid, k, msg, joint, regs>>
S == Structs[sid]
Cl == {SeqRange(S.pots[i].at) : i \in DOMAIN S.pots}
RECURSIVE Close(_)
Close(R) == LET R2 == (R \cup {x \cap y : x, y \in R}) \ {{}} IN IF R2 = R THEN R ELSE Close(R2)
Regions == regs          \* computed once in Init
Seps == Regions \ Cl
Parents(r) == {p \in Regions : r \subseteq p /\ r # p /\ ~\E q \in Regions : r \subseteq q /\ q \subseteq p /\ q # r /\ q # p}
Children(p) == {r \in Regions : p \in Parents(r)}
TwoLevel == /\ \A c \in Cl : Parents(c) = {}               \* the input is an antichain
            /\ \A s \in Seps : Children(s) = {} /\ Parents(s) \subseteq Cl
HasRIP == \E T \in SpanningTrees(Cl) : RIP(Cl, T)
Msgs == {<<p, r>> \in Cl \X Seps : p \in Parents(r)}
RECURSIVE MulSet(_, _, _)
MulSet(f, D, sz) == IF D = {} THEN One(sz) ELSE LET x == CHOOSE x \in D : TRUE IN Mul(f[x], MulSet(f, D \ {x}, sz), sz)
PsiOf(c) == LET i == CHOOSE i \in DOMAIN S.pots : SeqRange(S.pots[i].at) = c IN FromFlat(S.pots[i].at, S.sz, S.pots[i].w)
\* N(p, r) after cancellation with D (l.215-217): messages into p's OTHER separators from their OTHER parents
NSet(p, r) == {m \in Msgs : m[2] \in Children(p) /\ m[2] # r /\ m[1] # p}
BSet(x) == IF x \in Cl THEN {m \in Msgs : m[2] \in Children(x) /\ m[1] # x} ELSE {m \in Msgs : m[2] = x}
Init == \E s \in DOMAIN Structs :
          /\ sid = s /\ k = 0
          /\ joint = Mul(MulSet([i \in DOMAIN Structs[s].pots |-> FromFlat(Structs[s].pots[i].at, Structs[s].sz, Structs[s].pots[i].w)],
                                DOMAIN Structs[s].pots, Structs[s].sz), ConstTbl(Structs[s].V, Structs[s].sz, 1), Structs[s].sz)
          /\ msg = <<>>
          /\ regs = Close({SeqRange(Structs[s].pots[i].at) : i \in DOMAIN Structs[s].pots})
InitMsg == /\ k = 0 /\ msg = <<>> /\ msg' = [m \in Msgs |-> ConstTbl(m[2], S.sz, 1)] /\ k' = 1 /\ UNCHANGED <<sid, joint, regs>>
\* l.259-267 with D = {} : new[p,r] = marginal onto r of  pot[p] * prod N-messages   (old values: Jacobi sweep)
Sweep == /\ k >= 1 /\ k < MaxSweeps
         /\ msg' = [m \in Msgs |-> Marg(Mul(PsiOf(m[1]), MulSet(msg, NSet(m[1], m[2]), S.sz), S.sz), m[2], S.sz)]
         /\ k' = k + 1 /\ UNCHANGED <<sid, joint, regs>>
Next == InitMsg \/ Sweep
Spec == Init /\ [][Next]_vars
Belief(x) == Mul(IF x \in Cl THEN PsiOf(x) ELSE ConstTbl(x, S.sz, 1), MulSet(msg, BSet(x), S.sz), S.sz)      \* l.277-281
ExactNow == k >= 1 /\ \A x \in Regions : PropTo(Belief(x), Marg(joint, x, S.sz))
\* structures offered by the harness are in scope
InScope == TwoLevel /\ HasRIP
Exact == (k >= 1 + Cardinality(Cl)) => ExactNow
=============================================================================
