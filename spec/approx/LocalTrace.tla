----------------------------- MODULE LocalTrace -----------------------------
(* Validates hook-H4 streams of LocalInference against LocalMD.tla.         *)
EXTENDS LocalMD, TraceLib
VARIABLES tid, l
tvars == <<vars, tid, l>>
T == Traces[tid]
Ev == T.events[l]
Adv == l' = l + 1 /\ UNCHANGED tid
TraceInit == /\ tid \in 1..NTraces /\ l = 1
             /\ oracle = Traces[tid].oracle /\ iters = Traces[tid].iters /\ t = 0 /\ halvings = 0 /\ depth = 0 /\ pc = "start"
             /\ prevUp = FALSE /\ crashed = FALSE /\ restored = TRUE /\ post = 0
TrStart == /\ l <= Len(T.events) /\ Ev.k = "start" /\ Ev.halvings = halvings /\ Start /\ Adv
\* an iteration event, followed (if the loss went up) by its restart or damp event
TrIterOK == /\ l <= Len(T.events) /\ Ev.k = "iter" /\ Ev.t = t /\ ~Ev.up /\ Ev.halvings = halvings /\ Iter(FALSE) /\ Adv
TrIterRestart == /\ l + 1 <= Len(T.events) /\ Ev.k = "iter" /\ Ev.t = t /\ Ev.up /\ t <= 50
                 /\ T.events[l + 1].k = "restart" /\ T.events[l + 1].pot_restored /\ T.events[l + 1].msg_restored
                 /\ T.events[l + 1].halved
                 /\ Iter(TRUE) /\ l' = l + 2 /\ UNCHANGED tid
TrIterDamp == /\ l + 1 <= Len(T.events) /\ Ev.k = "iter" /\ Ev.t = t /\ Ev.up /\ t > 50
              /\ T.events[l + 1].k = "damp" /\ T.events[l + 1].halved
              /\ Iter(TRUE) /\ ~crashed' /\ l' = l + 2 /\ UNCHANGED tid
TrEnd == /\ pc = "loop" /\ t = iters /\ l <= Len(T.events) /\ Ev.k \in {"post", "return"} /\ EndLoop /\ UNCHANGED <<tid, l>>
TrPost == /\ pc = "post" /\ l <= Len(T.events) /\ Ev.k = "post"
          /\ IF Ev.feasible THEN (l + 1 <= Len(T.events) /\ T.events[l + 1].k = "return")      \* stops at the first feasible sweep
             ELSE (l + 1 <= Len(T.events) /\ T.events[l + 1].k \in {"post", "return"})
          /\ Adv /\ UNCHANGED vars
TrReturn == /\ pc = "post" /\ l <= Len(T.events) /\ Ev.k = "return" /\ Ev.is_last /\ pc' = "done" /\ Adv
            /\ UNCHANGED <<oracle, iters, t, halvings, depth, prevUp, crashed, restored, post>>
TraceNext == TrStart \/ TrIterOK \/ TrIterRestart \/ TrIterDamp \/ TrEnd \/ TrPost \/ TrReturn
TraceSpec == TraceInit /\ [][TraceNext]_tvars
Marker == Mark(tid, l)
ASSUME InitMarks
Post2 == PrintVerdicts
=============================================================================
