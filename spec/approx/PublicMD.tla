------------------------------ MODULE PublicMD ------------------------------
(* The accept / reject / step-doubling loop of public-data reweighting       *)
(* (src/mbi/public_inference.py:20-46, entropic_mirror_descent).             *)
(*   alpha = 2^-e; a step Q is ACCEPTED iff the sufficient-decrease test     *)
(*   holds (suff); then the iterate moves to Q and alpha doubles unless a    *)
(*   rejection has already happened (begun); otherwise alpha halves and      *)
(*   begun becomes TRUE.  The weights returned are the last accepted point.  *)
(* Ghost: cur = index of the step whose Q is the current iterate (0 = the    *)
(* initial uniformly weighted point), rank = number of accepted steps.       *)
EXTENDS Integers, Sequences, TLC
CONSTANTS Iters
VARIABLES k, e, begun, cur, rank, pc, ret, doubledAfterReject
vars == <<k, e, begun, cur, rank, pc, ret, doubledAfterReject>>

Init == k = 0 /\ e = 0 /\ begun = FALSE /\ cur = 0 /\ rank = 0 /\ pc = "loop" /\ ret = -1 /\ doubledAfterReject = FALSE
Step(suff) ==
  /\ pc = "loop" /\ k < Iters
  /\ k' = k + 1
  /\ IF suff
     THEN /\ cur' = k + 1 /\ rank' = rank + 1                    \* l.36-37: logP = logQ, loss = new_loss
          /\ e' = IF begun THEN e ELSE e - 1                     \* l.39: double only before the first rejection
          /\ begun' = begun
          /\ doubledAfterReject' = (doubledAfterReject \/ (begun /\ e' < e))
     ELSE /\ cur' = cur /\ rank' = rank
          /\ e' = e + 1 /\ begun' = TRUE                         \* l.41-42
          /\ doubledAfterReject' = doubledAfterReject
  /\ UNCHANGED <<pc, ret>>
Return == /\ pc = "loop" /\ k = Iters /\ ret' = cur /\ pc' = "done" /\ UNCHANGED <<k, e, begun, cur, rank, doubledAfterReject>>
Next == (\E s \in BOOLEAN : Step(s)) \/ Return
Spec == Init /\ [][Next]_vars

\* the weights handed back are the last ACCEPTED point, never a rejected trial
ReturnsLastAccepted == pc = "done" => ret = cur
\* the step size never grows again once a step has been rejected
NoDoublingAfterReject == ~doubledAfterReject
\* the iterate only ever moves on an accepted step: rank counts exactly the moves
RankOK == rank <= k /\ (cur = 0 <=> rank = 0)
=============================================================================
