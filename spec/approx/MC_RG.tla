------------------------------- MODULE MC_RG -------------------------------
EXTENDS RegionGraph
Attrs4 == {"a", "b", "c", "d"}
Attrs3 == {"a", "b", "c"}
Antichains(A) == {C \in SUBSET ((SUBSET A) \ {{}}) : C # {} /\ \A x, y \in C : x \subseteq y => x = y}
All3 == Antichains(Attrs3)
All4 == {C \in Antichains(Attrs4) : Cardinality(C) <= 4}
All4small == {C \in Antichains(Attrs4) : Cardinality(C) <= 3}
=============================================================================
