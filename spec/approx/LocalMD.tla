------------------------------ MODULE LocalMD ------------------------------
(* The restart / damping controller of approximate estimation               *)
(* (src/mbi/local_inference.py:84-141, mirror_descent_auto).                *)
(*   Start     deep-copies the oracle's messages, initial BP and loss       *)
(*   Iter(up)  one gradient step; `up` = "the loss went up" (l > prev_l)    *)
(*   Restart   (up, t <= 50): restore potentials AND messages, recurse with *)
(*             half the step size                                           *)
(*   DampUp    (up, t > 50): raise the oracle's damping, halve the step -   *)
(*             reads a field only region-graph oracles have                 *)
(*   Post      extra propagation sweeps until primal feasibility < 1        *)
(* C18: completes without error for EVERY oracle (NoCrash), returns the     *)
(* last computed pair.  The restart chain has no bound in the design        *)
(* (hazard, see RestartHazard): conformance measures the depth on each run. *)
EXTENDS Integers, Sequences, TLC
CONSTANTS Oracles, ItersSet, MaxDepth, GuardDamping
VARIABLES oracle, iters, t, halvings, depth, pc, prevUp, crashed, restored, post
vars == <<oracle, iters, t, halvings, depth, pc, prevUp, crashed, restored, post>>

HasDamping(o) == o \in {"convex", "approx"}        \* RegionGraph has .damping, FactorGraph does not (factor_graph.py:10-32)
Init == /\ oracle \in Oracles /\ iters \in ItersSet /\ t = 0 /\ halvings = 0 /\ depth = 0 /\ pc = "start"
        /\ prevUp = FALSE /\ crashed = FALSE /\ restored = TRUE /\ post = 0
Start == pc = "start" /\ pc' = "loop" /\ t' = 0 /\ UNCHANGED <<oracle, iters, halvings, depth, prevUp, crashed, restored, post>>
Iter(up) ==
  /\ pc = "loop" /\ t < iters /\ ~crashed
  /\ (t = 0 => ~up)                                   \* prev_l = inf on the first iteration (l.92)
  /\ IF ~up THEN /\ t' = t + 1 /\ UNCHANGED <<halvings, depth, pc, crashed, restored>>
     ELSE IF t <= 50
          THEN /\ depth < MaxDepth                    \* exploration bound only
               /\ depth' = depth + 1 /\ halvings' = halvings + 1 /\ t' = 0 /\ pc' = "start"      \* l.101-105
               /\ restored' = TRUE /\ UNCHANGED crashed
          ELSE /\ crashed' = (~HasDamping(oracle) /\ ~GuardDamping)                              \* l.108
               /\ halvings' = halvings + 1 /\ t' = t + 1 /\ UNCHANGED <<depth, pc, restored>>
  /\ prevUp' = up /\ UNCHANGED <<oracle, iters, post>>
EndLoop == /\ pc = "loop" /\ t = iters /\ ~crashed /\ pc' = "post" /\ UNCHANGED <<oracle, iters, t, halvings, depth, prevUp, crashed, restored, post>>
Post(feasible) == /\ pc = "post" /\ post < 3
                  /\ IF feasible THEN pc' = "done" /\ post' = post ELSE post' = post + 1 /\ pc' = "post"
                  /\ UNCHANGED <<oracle, iters, t, halvings, depth, prevUp, crashed, restored>>
Next == Start \/ (\E u \in BOOLEAN : Iter(u)) \/ EndLoop \/ (\E f \in BOOLEAN : Post(f))
Spec == Init /\ [][Next]_vars

NoCrash == ~crashed
RestoredOnRestart == restored
\* design hazard: a restart is possible at every depth (no bound in the code): TLC reaches depth = MaxDepth
RestartHazard == depth < MaxDepth
=============================================================================
