---------------------------- MODULE ConvexTrace ----------------------------
(* Certificate check of real runs of the convex oracle: one event per       *)
(* region-graph edge with the L1 marginal mismatch, one per region with the *)
(* normalisation error and the smallest mass, one per feasible direction    *)
(* with gradient . direction; all in micro-units, compared with Tol.        *)
EXTENDS Integers, Sequences, TLC, TraceLib
VARIABLES tid, l
tvars == <<tid, l>>
Ev == Traces[tid].events[l]
TraceInit == tid \in 1..NTraces /\ l = 1
Abs(x) == IF x < 0 THEN -x ELSE x
Step == /\ l <= Len(Traces[tid].events)
        /\ CASE Ev.k = "edge" -> Ev.mismatch <= Traces[tid].tol            \* Feasible: parent agrees with child
             [] Ev.k = "region" -> Abs(Ev.sumerr) <= Traces[tid].tol /\ Ev.minmass >= 0 /\ Ev.finite
             [] Ev.k = "dir" -> Abs(Ev.gdot) <= Traces[tid].tol            \* Stationary along this feasible direction
             [] Ev.k = "rank" -> Ev.span = Ev.kernel                       \* the directions span the whole tangent space
        /\ l' = l + 1 /\ UNCHANGED tid
TraceSpec == TraceInit /\ [][Step]_tvars
Marker == Mark(tid, l)
ASSUME InitMarks
Post == PrintVerdicts
=============================================================================
