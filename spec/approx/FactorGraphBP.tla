--------------------------- MODULE FactorGraphBP ---------------------------
(* Loopy belief propagation on a factor graph with the flooding schedule of *)
(* src/mbi/factor_graph.py:86-119: in every sweep all factor-to-variable    *)
(* messages are recomputed from the previous variable-to-factor messages,   *)
(* then all variable-to-factor messages from the NEW factor messages.       *)
(* Integer tables up to scale (the code normalises messages; beliefs are    *)
(* compared projectively).  C16: on a TREE factor graph the clique beliefs  *)
(* are exact after enough sweeps, and stay exact.                           *)
EXTENDS Tables, TLC, Json
CONSTANTS Structs, MaxSweeps
VARIABLES sid, k, muf, mun, joint
vars == <<sid, k, muf, mun, joint>>
S == Structs[sid]
Cl == 1..Len(S.pots)                       \* factors, by index (duplicates would be distinct factors)
At(c) == SeqRange(S.pots[c].at)
Psi(c) == FromFlat(S.pots[c].at, S.sz, S.pots[c].w)
RECURSIVE MulSet(_, _, _)
MulSet(f, D, sz) == IF D = {} THEN One(sz) ELSE LET x == CHOOSE x \in D : TRUE IN Mul(f[x], MulSet(f, D \ {x}, sz), sz)
Pairs == {<<c, v>> \in Cl \X S.V : v \in At(c)}
Init == \E s \in DOMAIN Structs :
          /\ sid = s /\ k = 0
          /\ muf = [p \in {<<c, v>> \in (1..Len(Structs[s].pots)) \X Structs[s].V : v \in SeqRange(Structs[s].pots[c].at)} |-> ConstTbl({p[2]}, Structs[s].sz, 1)]
          /\ mun = [p \in {<<c, v>> \in (1..Len(Structs[s].pots)) \X Structs[s].V : v \in SeqRange(Structs[s].pots[c].at)} |-> ConstTbl({p[2]}, Structs[s].sz, 1)]
          /\ joint = Mul(MulSet([c \in 1..Len(Structs[s].pots) |-> FromFlat(Structs[s].pots[c].at, Structs[s].sz, Structs[s].pots[c].w)],
                                1..Len(Structs[s].pots), Structs[s].sz), ConstTbl(Structs[s].V, Structs[s].sz, 1), Structs[s].sz)
\* l.93-99 then l.102-110
Sweep ==
  /\ k < MaxSweeps
  /\ LET nf == [p \in Pairs |-> Marg(Mul(Psi(p[1]), MulSet([q \in {q \in Pairs : q[1] = p[1] /\ q[2] # p[2]} |-> mun[q]],
                                                             {q \in Pairs : q[1] = p[1] /\ q[2] # p[2]}, S.sz), S.sz), {p[2]}, S.sz)]
     IN  /\ muf' = nf
         /\ mun' = [p \in Pairs |-> MulSet([q \in {q \in Pairs : q[2] = p[2] /\ q[1] # p[1]} |-> nf[q]],
                                           {q \in Pairs : q[2] = p[2] /\ q[1] # p[1]}, S.sz)]
  /\ k' = k + 1 /\ UNCHANGED <<sid, joint>>
Next == Sweep
Spec == Init /\ [][Next]_vars
\* l.160-168 clique_marginals
Belief(c) == Mul(Psi(c), MulSet([q \in {q \in Pairs : q[1] = c} |-> mun[q]], {q \in Pairs : q[1] = c}, S.sz), S.sz)
ExactNow == \A c \in Cl : PropTo(Belief(c), Marg(joint, At(c), S.sz))
Emit == PrintT(<<"EMIT", ToJson([sid |-> sid, k |-> k, exact |-> ExactNow])>>)
\* exact at the latest after one sweep per graph node, and from then on (the harness also checks that the emitted
\* exactness flags are monotone: once exact, always exact, so "enough sweeps" is well defined)
ExactEventually == k >= S.nodes => ExactNow
=============================================================================
