---------------------------- MODULE PublicTrace ----------------------------
(* Validates hook-H5 streams of entropic_mirror_descent against PublicMD.   *)
(* Each step carries the branch the code took (moved), the sufficient-      *)
(* decrease comparison re-evaluated by the harness from the logged numbers  *)
(* (suff), the exact exponent of the step size (ex), whether the accepted   *)
(* loss went down (down) and whether the decrease bound was non-negative.   *)
EXTENDS PublicMD, TraceLib
VARIABLES tid, l
tvars == <<vars, tid, l>>
T == Traces[tid]
Ev == T.events[l]
TraceInit == Init /\ tid \in 1..NTraces /\ l = 1
TrStep == /\ l <= Len(T.events) /\ Ev.k = "step"
          /\ Ev.ex = e                       \* alpha = 2^-e exactly
          /\ Ev.begun = begun
          /\ Ev.moved = Ev.suff              \* the iterate moved iff the comparison holds
          /\ Step(Ev.suff)
          /\ l' = l + 1 /\ UNCHANGED tid
TrReturn == /\ l <= Len(T.events) /\ Ev.k = "return"
            /\ Return
            /\ Ev.is_last_accepted           \* the returned log-weights are the iterate of the last accepted step
            /\ l' = l + 1 /\ UNCHANGED tid
TraceNext == TrStep \/ TrReturn
TraceSpec == TraceInit /\ [][TraceNext]_tvars
Marker == Mark(tid, l)
ASSUME InitMarks
Post == PrintVerdicts
=============================================================================
