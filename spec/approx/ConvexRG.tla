------------------------------ MODULE ConvexRG ------------------------------
(* The convex region-graph oracle (src/mbi/region_graph.py:287-341,         *)
(* hazan_peng_shashua with unit counting numbers) solves                    *)
(*     maximise  sum_r ( theta_r . mu_r + H(mu_r) )                         *)
(*     over the LOCAL POLYTOPE: mu_r >= 0, every region sums to the total,  *)
(*     every parent marginalises to each of its children.                   *)
(* The objective is strictly concave and potentials are finite, so mu is    *)
(* the unique optimum iff it is feasible and the gradient                   *)
(*     g_r(x) = theta_r(x) - ln mu_r(x)      (the "+1" drops on directions) *)
(* is orthogonal to every FEASIBLE DIRECTION d (tables d_r with zero sum    *)
(* whose parents marginalise to their children).  C17 is decided by this    *)
(* first-order certificate on the returned pseudo-marginals only.           *)
(* TLC checks in exact integers that every direction handed to the          *)
(* certificate really is feasible (so an optimum can never be rejected for  *)
(* a bad direction); the trace part checks feasibility and stationarity of  *)
(* real runs on logged fixed-point numbers.                                 *)
EXTENDS Tables, TLC
CONSTANTS Structs      \* sequence of [sz, regions: seq of attr seqs, edges: set of <<parent idx, child idx>>, dirs: seq of (seq over regions of flat tables)]
VARIABLES sid
Init == sid \in DOMAIN Structs
Next == UNCHANGED sid
Spec == Init /\ [][Next]_sid
S == Structs[sid]
Tbl(d, r) == FromFlat(S.regions[r], S.sz, d[r])
DirFeasible(d) ==
  /\ \A r \in DOMAIN S.regions : Total(Tbl(d, r)) = 0
  /\ \A e \in S.edges : Marg(Tbl(d, e[1]), SeqRange(S.regions[e[2]]), S.sz) =
                        [at |-> SeqRange(S.regions[e[2]]), v |-> Tbl(d, e[2]).v]
AllFeasible == \A k \in DOMAIN S.dirs : DirFeasible(S.dirs[k])
\* a direction that moves at least one cell (the zero direction certifies nothing)
NonTrivial == \A k \in DOMAIN S.dirs : \E r \in DOMAIN S.regions : \E i \in DOMAIN S.dirs[k][r] : S.dirs[k][r][i] # 0
=============================================================================
