---------------------------- MODULE ModelQuery ----------------------------
(* Query paths of a graphical model (src/mbi/graphical_model.py:39-137):    *)
(* project (cache / variable elimination), calculate_many_marginals (pair   *)
(* chain / fallback), krondot, datavector, save+load.  Every answer is a    *)
(* function of the call and of the ONE explicit joint only - not of the     *)
(* cache state and not of the call history (C02).  Integer semiring: the    *)
(* spec answers are unnormalised integers; the implementation's answer must *)
(* equal them times total / Z.                                              *)
EXTENDS Tables, TLC, Json

CONSTANTS Structs,   \* sequence of [V, sz, ord, pots, cliques (maximal, for path prediction)]
          Calls,     \* per structure: the call alphabet, a set of records
          Depth      \* length of the call histories to enumerate

VARIABLES sid, joint, cached, cached0, hist, pset
vars == <<sid, joint, cached, cached0, hist, pset>>
S == Structs[sid]

RECURSIVE MulSeq(_, _)
MulSeq(ts, sz) == IF ts = <<>> THEN One(sz) ELSE Mul(Head(ts), MulSeq(Tail(ts), sz), sz)
\* the object can be given other parameters during its life (the estimators do: model.potentials = theta; model.marginals = mu;
\* model.total = ...): parameter set 2 is the same structure with every weight vector reversed
RevSeq(w) == [i \in DOMAIN w |-> w[Len(w) + 1 - i]]
WOf(st, k, p) == IF p = 1 THEN st.pots[k].w ELSE RevSeq(st.pots[k].w)
JointOfP(s, p) == LET st == Structs[s]
                  IN  Mul(MulSeq([k \in DOMAIN st.pots |-> FromFlat(st.pots[k].at, st.sz, WOf(st, k, p))], st.sz),
                          ConstTbl(st.V, st.sz, 1), st.sz)
JointOf(s) == JointOfP(s, 1)

Init == \E s \in DOMAIN Structs : \E c \in BOOLEAN :
          /\ sid = s /\ joint = JointOf(s) /\ Total(joint) > 0
          /\ cached = c /\ cached0 = c /\ hist = <<>> /\ pset = 1

\* the one and only semantics of a marginal query: marginal of the joint, in the REQUESTED order
Answer(seq) == Flat(Marg(joint, SeqRange(seq), S.sz), seq, S.sz)

\* which implementation path will serve the query (for coverage accounting only)
Path(seq, c) == IF c /\ \E cl \in S.cliques : SeqRange(seq) \subseteq cl THEN "cache" ELSE "ve"
ManyPath(seq) == IF \E c1, c2 \in S.cliques : c1 # c2 /\ SeqRange(seq) \subseteq (c1 \cup c2) THEN "pair"
                 ELSE Path(seq, TRUE)

\* Kronecker-product query: one small matrix per attribute
Rows(kind, n) == IF kind \in {"ones", "pick0", "ramp", "double0"} THEN 1 ELSE n
KEntry(kind, r, c) == CASE kind = "ones" -> 1
                        [] kind = "identity" -> IF r = c THEN 1 ELSE 0
                        [] kind = "prefix" -> IF c <= r THEN 1 ELSE 0
                        [] kind = "pick0" -> IF c = 0 THEN 1 ELSE 0
                        [] kind = "twice" -> IF r = c THEN 2 ELSE 0
                        [] kind = "ramp" -> c                         \* one weighted row (0, 1, 2, ...)
                        [] kind = "double0" -> IF c = 0 THEN 2 ELSE 0   \* one weighted row (2, 0, ...)
RECURSIVE ProdOver(_, _, _, _)
ProdOver(seq, kinds, r, x) == IF seq = <<>> THEN 1
                              ELSE KEntry(kinds[Head(seq)], r[Head(seq)], x[Head(seq)]) * ProdOver(Tail(seq), kinds, r, x)
Krondot(kinds) ==
  LET rsz == [a \in S.V |-> Rows(kinds[a], S.sz[a])]
      rs == AsgSeq(S.ord, rsz)
  IN  [i \in DOMAIN rs |-> SumFn([x \in DOMAIN joint.v |-> joint.v[x] * ProdOver(S.ord, kinds, rs[i], x)], DOMAIN joint.v)]

Do(c) ==
  /\ Len(hist) < Depth
  /\ LET ans == CASE c.k = "project" -> [path |-> Path(c.seq, cached), a |-> Answer(c.seq)]
                  [] c.k = "many" -> [path |-> [i \in DOMAIN c.list |-> ManyPath(c.list[i])],
                                      a |-> [i \in DOMAIN c.list |-> Answer(c.list[i])]]
                  [] c.k = "krondot" -> [path |-> "krondot", a |-> Krondot(c.kinds)]
                  [] c.k = "datavector" -> [path |-> "datavector", a |-> Answer(S.ord)]
                  [] c.k = "saveload" -> [path |-> "saveload", a |-> <<>>]
                  [] c.k = "synth" -> [path |-> "synth", a |-> <<>>]      \* generating records is a read-only use of the model
                  [] c.k = "reparam" -> [path |-> "reparam", a |-> <<>>]
         np == IF c.k = "reparam" THEN 3 - pset ELSE pset
         nj == IF c.k = "reparam" THEN JointOfP(sid, np) ELSE joint
     IN  /\ hist' = Append(hist, [call |-> c, ans |-> ans, cached |-> cached, pset |-> np, Z |-> Total(nj)])
         /\ pset' = np /\ joint' = nj
         /\ (c.k = "reparam" => Total(nj) > 0)
  /\ cached' = (cached \/ c.k = "many")           \* l.72: bulk queries populate model.marginals (re-derived on reparam if present)
  /\ UNCHANGED <<sid, cached0>>

Next == \E c \in Calls[sid] : Do(c)
Spec == Init /\ [][Next]_vars

Emit == Len(hist) = Depth => PrintT(<<"EMIT", ToJson([sid |-> sid, cached0 |-> cached0, Z |-> Total(joint), hist |-> hist])>>)

\* answers are a function of the call only: the same call gives the same answer anywhere in any history
\* ... and of the parameters in force when it is made (hist[i].pset is the set in force AFTER step i; a query does not change it)
HistoryFree == \A i, j \in DOMAIN hist : (hist[i].call = hist[j].call /\ hist[i].pset = hist[j].pset) => hist[i].ans.a = hist[j].ans.a
\* every marginal answer carries the whole mass
SumsToZ == \A i \in DOMAIN hist : hist[i].call.k = "project" =>
             SumFn(hist[i].ans.a, DOMAIN hist[i].ans.a) = hist[i].Z
=============================================================================
