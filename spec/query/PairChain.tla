----------------------------- MODULE PairChain -----------------------------
(* The recurrence behind calculate_many_marginals (graphical_model.py:      *)
(* 75-96, Koller & Friedman 10.3): for cliques Ci, Cj and Cl the neighbour  *)
(* of Cj on the tree path from Ci,                                          *)
(*    P(Ci u Cj) = sum_{Cl \ Ci \ Cj}  P(Ci u Cl) * P(Cj) / P(Cj n Cl)      *)
(* Cross-multiplied it is an integer identity.  It holds on every tree with *)
(* the running-intersection property - and TLC shows it FAILS on a tree     *)
(* without it (negative control), tying C02 to C12.                         *)
EXTENDS Graphs, Tables, TLC

CONSTANTS Structs      \* sequence of [V, sz, pots, N (clique set), T (tree edges)]
VARIABLES sid
RECURSIVE MulSeq(_, _)
MulSeq(ts, sz) == IF ts = <<>> THEN One(sz) ELSE Mul(Head(ts), MulSeq(Tail(ts), sz), sz)
Joint(s) == LET st == Structs[s]
            IN  Mul(MulSeq([k \in DOMAIN st.pots |-> FromFlat(st.pots[k].at, st.sz, st.pots[k].w)], st.sz),
                    ConstTbl(st.V, st.sz, 1), st.sz)
Init == sid \in DOMAIN Structs
Next == UNCHANGED sid
Spec == Init /\ [][Next]_sid

S == Structs[sid]
\* the neighbour of cj on the path towards ci
PredOf(ci, cj) == CHOOSE cl \in S.N : {cl, cj} \in S.T /\ ci \in Reach({cl}, S.N, S.T \ {{cl, cj}})
ChainIdentity ==
  LET J == Joint(sid) sz == S.sz
  IN  \A ci, cj \in S.N :
        (ci # cj /\ {ci, cj} \notin S.T) =>
          LET cl == PredOf(ci, cj)
              sep == cj \cap cl
              lhs == Mul(Marg(J, ci \cup cj, sz), Marg(J, sep, sz), sz)
              X == Marg(J, ci \cup cl, sz)
              rhs == Marg(Mul(X, Marg(J, cj, sz), sz), ci \cup cj, sz)
          IN  lhs = rhs
=============================================================================
