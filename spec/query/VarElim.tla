------------------------------ MODULE VarElim ------------------------------
(* Variable elimination (graphical_model.py:252-275): eliminating the       *)
(* non-query variables in ANY order yields the marginal of the joint; the   *)
(* implementation's greedy_order is one of these orders.                    *)
EXTENDS Tables, TLC

CONSTANTS Structs
VARIABLES sid, keep, fs, todo, joint
vars == <<sid, keep, fs, todo, joint>>
S == Structs[sid]

RECURSIVE MulSeq(_, _)
MulSeq(ts, sz) == IF ts = <<>> THEN One(sz) ELSE Mul(Head(ts), MulSeq(Tail(ts), sz), sz)

Init == \E s \in DOMAIN Structs : \E K \in SUBSET Structs[s].V :
          LET st == Structs[s]
              ts == [k \in DOMAIN st.pots |-> FromFlat(st.pots[k].at, st.sz, st.pots[k].w)]
          IN  /\ sid = s /\ keep = K /\ fs = ts /\ todo = st.V \ K
              /\ joint = Mul(MulSeq(ts, st.sz), ConstTbl(st.V, st.sz, 1), st.sz)

\* l.254-261 / 266-273: multiply the factors that mention z, sum z out, put the result back
Eliminate(z) ==
  /\ z \in todo
  /\ LET touch == SelectSeq(fs, LAMBDA t : z \in t.at)
         rest == SelectSeq(fs, LAMBDA t : z \notin t.at)
         phi == MulSeq(touch, S.sz)
         tau == Marg(phi, phi.at \ {z}, S.sz)
     IN  fs' = Append(rest, tau)
  /\ todo' = todo \ {z}
  /\ UNCHANGED <<sid, keep, joint>>

Next == \E z \in S.V : Eliminate(z)
Spec == Init /\ [][Next]_vars

\* at every step the remaining factors multiply to the marginal of the joint over the surviving variables
Sound == LET cur == MulSeq(fs, S.sz)
             alive == keep \cup todo
         IN  Mul(cur, ConstTbl(alive, S.sz, 1), S.sz) = Marg(joint, alive, S.sz)
\* (every attribute occurs in some factor: model.potentials live on the maximal cliques, which cover the domain)
=============================================================================
